"""C03 - Accepted rows are flushed exactly once into their hour partition.

Proof: coq/theories/Buffer (Kernels/KernelProofs: bucket floor, group partition, both sort
paths incl. the LSD radix sort with the sign-bit bias, merge, per-hour flush; Protocol/
ProtocolCount/ProtocolInv/Proofs: conservation over ALL interleavings and any number of
goroutines, C03_close_refuted for the Close that exists, C03_flush_close_stores_all for the
corrected Close).
Tie 1 (translator): microPerHour, radixSkipThreshold, schemaEvolutionMaxIters are evaluated by
the Go compiler from the current source into coq/gen/Params_Buffer.v; Obligations.v re-proves
the deployed instances.
Tie 2 (correspondence): the real kernels function by function, the real flushPartitionedData
and a real ArrowBuffer over an in-memory storage.Backend (sequential histories compared file by
file with the model's scheduler; 2-8 concurrent writers and the Close witness judged by the
conservation oracle); every Parquet file is decoded in the harness and compared inside Coq.
"""
import json
import os
import random
import time

import vlib
import lib_buffer as lb
from lib_buffer import coq_batch, coq_zlist, coq_natlist, coq_kfile, coq_file, coq_cfg
from vlib import cz, cn, cbool, clist

AREA = "Buffer"
P = "Arc.Buffer.Props"
O = "Arc.Buffer.Obligations"
THEOREMS = [(P, "C03_accepted_rows_stored_once"),                       # PRIMARY (the code as it is)
            (P, "C03_bucket_floor"), (P, "C03_group_partition"), (P, "C03_sort_perm_sorted"), (P, "C03_sort_paths"),
            (P, "C03_merge_rows"), (P, "C03_flush_files"), (P, "C03_key_sound"), (P, "C03_conservation"),
            (P, "C03_stored_files"), (P, "C03_flush_close_stores_all"),
            (P, "C03_close_refuted"),                                    # about the Close before 2ed39c6
            (O, "C03_deployed")]                                         # PRIMARY at the constants of the current source
MODULES = [P, O]
TIE_NAME = "C03 correspondence (ingest kernels + ArrowBuffer over in-memory storage vs Arc.Buffer.Model) / Params_Buffer"
KF_CLOSE = "close-abandons-queued-flush-tasks"


# ---------------------------------------------------------------------------------------
# case generation
# ---------------------------------------------------------------------------------------

def gen_cases(rng, tier, H, thr):
    mult = 1 if tier == "quick" else 12
    cases = []

    def add(c):
        c["id"] = len(cases)
        cases.append(c)

    # --- HourBucketID
    ts = []
    for k in list(range(-4, 5)) + [10**6, -10**6, 2562047, -2562048]:
        for d in (-H - 1, -H, -1, 0, 1, H - 1, H):
            t = k * H + d
            if lb.INT64_MIN <= t <= lb.INT64_MAX:
                ts.append(t)
    ts += [lb.INT64_MIN, lb.INT64_MIN + 1, lb.INT64_MAX, lb.INT64_MAX - 1, 0, 1, -1]
    ts += [rng.randrange(lb.INT64_MIN, lb.INT64_MAX) for _ in range(80 * mult)]
    ts += [rng.randrange(-5 * H, 5 * H) for _ in range(80 * mult)]
    for t in ts:
        add({"kind": "bucket", "t": t})
    # --- groupByHour
    for _ in range(100 * mult):
        n = rng.choice([1, 2, 3, 5, 8, 13, 30, 60])
        add({"kind": "group", "ts": lb.gen_times(rng, n, H)})
    # --- permuteByTime and both paths on their own
    for _ in range(180 * mult):
        n = rng.choice([0, 1, 2, 3, 4, 6, 9, 17, 40])
        style = rng.choice(["rand", "ties", "sorted", "rev", "neg", "extreme"])
        if style == "ties":
            arr = [rng.choice([5, 5, 7, -3, 0]) for _ in range(n)]
        elif style == "sorted":
            arr = sorted(lb.gen_times(rng, n, H))
        elif style == "rev":
            arr = sorted(lb.gen_times(rng, n, H), reverse=True)
        elif style == "neg":
            arr = [-rng.randrange(1, 10**12) for _ in range(n)]
        elif style == "extreme":
            arr = [rng.choice([lb.INT64_MIN, lb.INT64_MAX, -1, 0, 1, 1 << 62, -(1 << 62), 255, 256, -256, 65535]) for _ in range(n)]
        else:
            arr = lb.gen_times(rng, n, H)
        add({"kind": "perm", "fn": rng.choice([0, 0, 1, 2]), "ts": arr})
    for i in range(4 * mult):     # long arrays: the radix path of permuteByTime, around the threshold
        n = [thr - 1, thr, thr + 1, thr + 377, thr + 900, thr, thr + 5][i % 7]
        style = ["multi", "neg", "wide", "neg", "multi", "edge", "wide"][i % 7]
        arr = lb.gen_times(rng, n, H, style)
        if i % 7 == 2:
            arr = arr[:n // 2] + [-x for x in arr[n // 2:]]          # both signs: the bias matters
        if i % 7 == 5:
            arr = [rng.choice([lb.INT64_MIN, lb.INT64_MAX, -1, 0, 1, 1 << 40, -(1 << 40)]) for _ in range(n)]
        add({"kind": "perm", "fn": 2 if i % 4 == 3 else 0, "ts": arr})
    # --- getColumnSignature
    odd = ["_hidden", "", "a,b", "a:b", "Z", "time", "é", "_"]
    for _ in range(80 * mult):
        b = lb.gen_batch(rng, H, nulls=False)
        for nm in rng.sample(odd, rng.randint(0, 2)):
            if nm not in [c["n"] for c in b["cols"]]:
                n = lb.col_len(b["cols"][0])
                b["cols"].append({"n": nm, "t": "s", "s": ["q"] * n})
        add({"kind": "sig", "batch": b})
        add({"kind": "key", "batch": b})
    # --- mergeBatches
    for _ in range(200 * mult):
        k = rng.choice([1, 2, 2, 3, 3, 4])
        mode = rng.choice(["same", "same", "sparse", "sparse", "typechange", "underscore"])
        base = lb.gen_schema(rng)
        bs = []
        for j in range(k):
            sch = list(base)
            if mode == "sparse" and j > 0:
                sch = [c for c in sch if rng.random() < 0.6] + ([("extra%d" % j, "i")] if rng.random() < 0.5 else [])
            if mode == "typechange" and j == k - 1 and sch:
                nm, ty = sch[0]
                sch[0] = (nm, "s" if ty != "s" else "i")
            if mode == "underscore":
                sch = sch + [("_m", rng.choice(["i", "s"]))]
            bs.append(lb.gen_batch(rng, H, schema=sch, nulls=rng.random() < 0.7))
        add({"kind": "merge", "batches": bs})
    # --- flushPartitionedData
    for _ in range(90 * mult):
        n = rng.choice([1, 2, 4, 7, 12, 25])
        add({"kind": "flush", "batch": lb.gen_batch(rng, H, n=n)})
    # --- sequential histories on the real ArrowBuffer
    for _ in range(110 * mult):
        cfg = {"max_size": rng.choice([1, 2, 3, 5, 8, 1000]), "workers": rng.choice([1, 2, 4]), "queue": 64,
               "age_ms": 0, "shards": rng.choice([1, 2, 32])}
        keys = ["db%d/m%d" % (rng.randint(0, 1), rng.randint(0, 1)) for _ in range(2)]
        schemas = [lb.gen_schema(rng) for _ in range(3)]
        ops = []
        for _ in range(rng.randint(2, 10)):
            r = rng.random()
            if r < 0.1:
                ops.append({"op": "flushall"})
            else:
                sch = schemas[0] if rng.random() < 0.6 else rng.choice(schemas)
                via = "generic" if rng.random() < 0.25 else "typed"
                b = lb.gen_batch(rng, H, schema=sch, n=rng.randint(1, 4))
                if via == "generic":
                    normalise_generic(b)
                ops.append({"op": "write", "key": rng.choice(keys), "batch": b, "via": via})
        r = rng.random()
        if r < 0.45:
            ops += [{"op": "flushall"}, {"op": "close"}]
        elif r < 0.85:
            ops += [{"op": "close"}]                   # shutdown-triggered flush of what is still buffered
        add({"kind": "hist", "cfg": cfg, "ops": ops})
    # --- concurrent writers (1-8 goroutines), judged by the conservation oracle
    for _ in range(30 * mult):
        cfg = {"max_size": rng.choice([1, 2, 4, 7, 50]), "workers": rng.choice([1, 2, 3, 8]), "queue": 4096,
               "age_ms": rng.choice([0, 0, 1, 5]), "shards": rng.choice([1, 4, 32])}
        keys = ["db/m%d" % i for i in range(rng.randint(1, 3))]
        schemas = [lb.gen_schema(rng) for _ in range(rng.randint(1, 3))]
        writers = []
        for _ in range(rng.randint(1, 8)):
            w = []
            for _ in range(rng.randint(1, 6)):
                w.append({"op": "write", "key": rng.choice(keys), "batch": lb.gen_batch(rng, H, schema=rng.choice(schemas), n=rng.randint(1, 4)), "via": "typed"})
            writers.append(w)
        add({"kind": "conc", "cfg": cfg, "writers": writers, "fn": rng.choice([0, 1])})   # fn=1: Close without a preceding FlushAll
    # --- forced schedules through the lock-released I/O window of the schema-change flush
    for i in range(10 * mult):
        tys = rng.choice([("f", "i"), ("i", "f"), ("s", "i"), ("b", "i"), ("i", "s"), ("f", "s")])
        extra = [("tag", "s")] if rng.random() < 0.5 else []
        sa, sb = [("v", tys[0])] + extra, [("v", tys[1])] + extra
        bs = [lb.gen_batch(rng, H, schema=sa, n=rng.randint(1, 3), nulls=False),
              lb.gen_batch(rng, H, schema=sb, n=rng.randint(1, 3), nulls=False),
              lb.gen_batch(rng, H, schema=sa, n=rng.randint(1, 3), nulls=False)]
        add({"kind": "race", "cfg": {"max_size": 1000, "workers": 1, "queue": 16, "age_ms": 0, "shards": 1}, "key": "db/race", "batches": bs})
    return cases


def normalise_generic(b):
    """The generic ([]interface{}) write path infers types from the first non-nil value and turns
    an all-nil column into an all-null STRING column (issue #337); make the expected batch say so."""
    for c in b["cols"]:
        if c.get("v") is not None and not any(c["v"]):
            n = lb.col_len(c)
            for k in ("i", "u", "b", "s"):
                c.pop(k, None)
            c["t"] = "s"
            c["s"] = [""] * n
        elif c.get("v") is not None and all(c["v"]):
            c.pop("v")          # no nil -> no validity entry


def close_witness_case(H):
    bs = [{"cols": [{"n": "time", "t": "i", "i": [1_700_000_000_000_000 + 1000 * i]}, {"n": "v", "t": "i", "i": [i]}]} for i in range(12)]
    return {"kind": "closew", "cfg": {"max_size": 1, "workers": 1, "queue": 64, "age_ms": 0, "shards": 1},
            "key": "db/close", "batches": bs, "trials": 3}


# ---------------------------------------------------------------------------------------
# Coq terms
# ---------------------------------------------------------------------------------------

def effective_batch(op):
    return op["batch"]


def coq_op(keys, op):
    if op["op"] == "write":
        return "OWrite %s %s" % (cn(keys.id(op["key"])), coq_batch(effective_batch(op)))
    return "OFlushAll" if op["op"] == "flushall" else "OClose"


def case_terms(c, o, H, thr):
    """-> list of Coq ccase terms for one case/observation (closew: one per trial)."""
    k = c["kind"]
    if k == "bucket":
        return ["CBucket (%d) (%d) (%d)" % (o["h"], c["t"], o["z"])]
    if k == "group":
        obs = clist(["((%d), %s)" % (g["id"], coq_natlist(g["idx"])) for g in o.get("groups") or []]) if o.get("groups") else "[]"
        return ["CGroup (%d) %s %s" % (H, coq_zlist(c["ts"]), obs)]
    if k == "perm":
        obs = "None" if o.get("perm_nil") else "(Some %s)" % coq_natlist(o["perm"] or [])
        return ["CPerm (%d) %s %s %s" % (o["h"], cn(c["fn"]), coq_zlist(c["ts"]), obs)]
    if k == "sig":
        return ["CSig %s %s" % (coq_batch(c["batch"]), vlib.cbytes(o.get("sig", "").encode()))]
    if k == "key":
        return ["CKey %s %s" % (coq_batch(c["batch"]), vlib.cbytes(o.get("sig", "").encode("utf-8", "surrogateescape")))]
    if k == "merge":
        obs = {"ok": lambda: "(MObs %s)" % coq_batch(o["merged"]), "err": lambda: "MObsErr", "panic": lambda: "MObsPanic"}[o["outcome"]]()
        return ["CMerge %s %s" % (clist([coq_batch(b) for b in c["batches"]]), obs)]
    if k == "flush":
        obs = "None" if o["outcome"] != "ok" else "(Some %s)" % (clist([coq_file(f) for f in o["files"]]) if o["files"] else "[]")
        return ["CFlush (%d) (%d) %s %s" % (H, thr, coq_batch(c["batch"]), obs)]
    keys = lb.Keys()
    if k == "hist":
        ops = [op for i, op in enumerate(c["ops"]) if i not in set(o.get("rejected") or [])]
        return ["CHist (%d) (%d) %s %s %s" % (H, thr, coq_cfg(c["cfg"]), clist([coq_op(keys, op) for op in ops]) if ops else "[]",
                                             clist([coq_kfile(keys, f) for f in o["files"]]) if o["files"] else "[]")]
    if k == "conc":
        rej = set(o.get("rejected") or [])
        writes = [op for wi, w in enumerate(c["writers"]) for oi, op in enumerate(w) if wi * 10000 + oi not in rej]
        return ["CConc (%d) %s %s" % (H, clist(["(%s, %s)" % (cn(keys.id(op["key"])), coq_batch(op["batch"])) for op in writes]) if writes else "[]",
                                      clist([coq_kfile(keys, f) for f in o["files"]]) if o["files"] else "[]")]
    if k == "race":
        kid = cn(keys.id(c["key"]))
        a1, b, a2 = (coq_batch(x) for x in c["batches"])
        rej = set(o.get("rejected") or [])
        if rej:
            raise vlib.TieBroken("race case: a write was rejected (%s)" % sorted(rej))
        ls = ["LWrite %s %s true" % (kid, a1), "LSchemaFlush %s" % kid, "LWrite %s %s true" % (kid, a2), "LDone 0 OOk",
              "LSchemaFlush %s" % kid, "LDone 0 OOk", "LWrite %s %s true" % (kid, b), "LFlushAllExtract %s" % kid, "LDone 0 OOk",
              "LCloseBegin", "LCloseWait", "LCloseEnd"]
        return ["CLabels (%d) (%d) %s %s %s" % (H, thr, coq_cfg(c["cfg"], fix=True), clist(ls),
                                               clist([coq_kfile(keys, f) for f in o["files"]]) if o["files"] else "[]")]
    if k == "closew":
        out = []
        for files in o["trials"]:
            out.append("CCloseW (%d) (%d) %d %s %s %s" % (H, thr, c["cfg"]["queue"], cn(keys.id(c["key"])),
                                                          clist([coq_batch(b) for b in c["batches"]]),
                                                          clist([coq_kfile(keys, f) for f in files]) if files else "[]"))
        return out
    raise vlib.InfraError("unknown kind " + k)


def nontrivial(c):
    k = c["kind"]
    if k == "bucket":
        return True
    if k == "group":
        return len(c["ts"]) >= 2
    if k == "perm":
        return len(c["ts"]) >= 2 and c["ts"] != sorted(c["ts"])
    if k in ("sig", "key"):
        return len(c["batch"]["cols"]) >= 2
    if k == "merge":
        bs = c["batches"]
        return len(bs) >= 2 and (len({lb.batch_sigkey(b) for b in bs}) > 1 or any(lb.batch_has_null(b) for b in bs))
    if k == "flush":
        return len(lb.batch_times(c["batch"])) >= 2
    if k in ("hist", "conc"):
        # DESIGN rule: >= 2 batches for one key and (schema change or >= 2 hours or a null)
        ops = c["ops"] if k == "hist" else [op for w in c["writers"] for op in w]
        per = {}
        for op in ops:
            if op["op"] == "write":
                per.setdefault(op["key"], []).append(op["batch"])
        for bs in per.values():
            if len(bs) >= 2:
                hours = {t // lb.H_DEFAULT for b in bs for t in lb.batch_times(b)}
                if len({lb.batch_sigkey(b) for b in bs}) > 1 or len(hours) >= 2 or any(lb.batch_has_null(b) for b in bs):
                    return True
        return False
    return True


# ---------------------------------------------------------------------------------------
# evaluation
# ---------------------------------------------------------------------------------------

def evaluate(pid, cases, obs, H, thr, name):
    """-> (terms, owner index per term, disagree idx, oraclefail idx)"""
    terms, owner = [], []
    for i, (c, o) in enumerate(zip(cases, obs)):
        for t in case_terms(c, o, H, thr):
            terms.append(t)
            owner.append(i)
    r = lb.par_check_cases(pid, lb.COQ_HEADER, "ccase", terms, {"agree": "case_agrees", "oracle": "case_oracle"},
                           name=name, timeout=1500)
    return terms, owner, r["agree"], r["oracle"]


def shrink_case(c, still):
    """greedy removal of ops / batches / array elements while the failure persists"""
    cur = json.loads(json.dumps(c))
    for field in ("ops", "batches", "ts"):
        if field in cur and isinstance(cur[field], list) and len(cur[field]) <= 64:
            def pred(lst, field=field):
                cand = dict(cur)
                cand[field] = lst
                return still(cand)
            cur[field] = vlib.shrink_list(cur[field], pred, min_len=1)
    return cur


def setup():
    lb.translate_params()


def warm():
    lb.run_harness("C03", [], tag="warm")


def _run(res, tier, seed):
    rng = random.Random(seed * 7919 + 3)
    t0 = time.time()
    try:
        params = lb.translate_params()
    finally:
        res.stage("translate_params", t0)
    H, thr = params["micro_per_hour"], params["radix_skip_threshold"]
    res.cov["params"] = params

    failed = vlib.std_proof_stage(res, "C03", AREA, MODULES, THEOREMS,
                                  extra_targets=["theories/Buffer/Obligations.vo"])
    if tier == "thorough":
        ok, _ = vlib.coqchk_stage(res, ["Arc.Buffer.Props", "Arc.Buffer.Obligations"])
        if not ok:
            failed.append(("coqchk", "coqchk rejected the compiled development or reported inadmissible axioms"))
    res.cov["trusted_base"] += [
        "Parquet/Arrow encode (pqarrow writer) and decode (harness) are library code: a file is observed through its decoded cells",
        "sort.Slice (pdqsort) is library code: the comparison path is modelled by the stable sort of (time, index); the Go result is checked to be a sorted permutation on every case",
        "time.Time formatting of the partition directory is library code; the harness maps YYYY/MM/DD/HH back to an hour id with its own proleptic-Gregorian arithmetic",
        "counting sort pass of radixPermuteByTime is modelled by its denotation (stable distribution by digit); tied by exact permutation equality on arrays around and above radixSkipThreshold",
        "goroutines are anonymous and their atomic sections are the labels of Protocol.v (lock-protected sections, channel operations); the Go memory model / scheduler fairness is not modelled",
        "the non-default sort keys and decimal128 columns are outside the model (property: default configuration)",
        "input hypothesis of the end-to-end theorems: accepted batches are well formed (int64 time column, all columns of one length, >= 1 row); that batches sharing a buffer agree on column types is proved (C03_key_sound), not assumed",
    ]

    t1 = time.time()
    cases = [close_witness_case(H)] + load_corpus() + gen_cases(rng, tier, H, thr)
    for i, c in enumerate(cases):
        c["id"] = i
    obs = lb.run_harness("C03", cases, tag=tier)
    res.stage("impl_harness", t1)
    t2 = time.time()
    terms, owner, dis, orf = evaluate("C03", cases, obs, H, thr, "Cases_C03_%s" % tier)
    res.stage("coq_eval", t2)

    res.cov["evaluations"] = len(terms)
    keys = {json.dumps({k: v for k, v in c.items() if k != "id"}, sort_keys=True) for c in cases if nontrivial(c)}
    res.cov["distinct_nontrivial"] = len(keys)
    res.cov["rule"] = ("kernel inputs (bucket/group/perm/sig/merge/flush) generated around hour edges, negatives, int64 extremes, ties, "
                       "arrays around radixSkipThreshold; histories = random configs (max_size, workers, shards), 2 keys, 3 schemas, typed and "
                       "generic write paths, FlushAll/Close; concurrent = 1-8 goroutines. Non-trivial: kernel input with >= 2 elements that is "
                       "not already sorted / has >= 2 batches with a schema difference or a NULL; history with >= 2 batches for one key and "
                       "(schema change or >= 2 hours or a NULL). Distinct by canonical JSON of the case.")
    hist = {}
    for c in cases:
        hist[c["kind"]] = hist.get(c["kind"], 0) + 1
    res.cov["histogram"] = {"kinds": hist,
                            "files_decoded": sum(len(o.get("files") or []) + sum(len(t) for t in o.get("trials") or []) for o in obs),
                            "radix_path_cases": sum(1 for c in cases if c["kind"] == "perm" and len(c["ts"]) >= thr),
                            "merge_outcomes": {k: sum(1 for o in obs if o["kind"] == "merge" and o.get("outcome") == k) for k in ("ok", "err", "panic")},
                            "rejected_writes": sum(len(o.get("rejected") or []) for o in obs),
                            "duplicate_storage_paths": sum(o.get("dup_paths", 0) for o in obs)}
    res.cov["model_vs_impl_disagreements"] = len(dis)
    res.cov["oracle_failures"] = len(orf)
    samples = [cases[i] for i in (1, len(cases) // 2, len(cases) - 1) if i < len(cases)]
    res.cov["samples"] = [json.loads(json.dumps(s))for s in samples if len(json.dumps(s)) < 6000][:3] or [{"kind": cases[-1]["kind"]}]

    known = {e["signature"]: e for e in vlib.known_for("C03")}
    dis_set = set(dis)

    def rerun(cand):
        cand = dict(cand)
        cand["id"] = 0
        ob = lb.run_harness("C03", [cand], tag="shrink")
        _, _, d, o = evaluate("C03", [cand], ob, H, thr, "Shrink_C03")
        return ob[0], bool(d), bool(o)

    def still(pred_idx):
        def f(cand):
            try:
                return rerun(cand)[pred_idx]
            except (vlib.TieBroken, vlib.InfraError):
                return False
        return f

    # 1. oracle failures on the implementation's own output
    close_lost, bad = 0, []
    for ti in orf:
        c = cases[owner[ti]]
        if c["kind"] == "closew" and KF_CLOSE in known and ti not in dis_set:
            close_lost += 1          # the model (Close as it is) predicts exactly this outcome
        else:
            bad.append(owner[ti])
    ntrials = sum(1 for ow in owner if cases[ow]["kind"] == "closew")
    res.cov["close_witness"] = {"trials": ntrials, "trials_losing_accepted_rows": close_lost}
    if close_lost:
        res.known_finding("%s: ArrowBuffer.Close returned with accepted batches never written in %d of %d trials "
                          "(1 worker blocked in storage.Write, 11 size-triggered flush tasks queued)"
                          % (KF_CLOSE, close_lost, ntrials))
    reported = False
    if bad:
        bad = sorted(set(bad), key=lambda i: len(json.dumps(cases[i])))
        c = cases[bad[0]]
        small = shrink_case(c, still(2)) if c["kind"] not in ("conc", "closew", "race") else c
        ob, d2, o2 = rerun(small)
        res.violation("property oracle fails on the implementation's output (%s case; %d failing cases, kinds %s)"
                      % (c["kind"], len(bad), sorted({cases[i]["kind"] for i in bad})),
                      {"kind": "oracle-failure", "case": small, "observed": ob, "failing_cases": len(bad),
                       "model_disagrees_too": d2, "how_to_replay": "python3 tools/check.py C03 --replay <this file>"})
        reported = True
    # 2. proof obligations
    if failed and not reported:
        res.violation("proof obligation(s) no longer check: " + "; ".join(r for _, r in failed),
                      {"kind": "obligation-failed", "theorems": [t for t, _ in failed], "detail": [r for _, r in failed]},
                      no_input=True, suffix="obligation")
    # 3. model / implementation disagreements where the oracle is satisfied
    only_dis = sorted({owner[ti] for ti in dis} - set(bad), key=lambda i: len(json.dumps(cases[i])))
    if only_dis:
        c = cases[only_dis[0]]
        small = shrink_case(c, still(1)) if c["kind"] not in ("conc", "closew", "race") else c
        ob, d2, o2 = rerun(small)
        res.violation("model and implementation disagree on a %s case (%d disagreeing cases, kinds %s)"
                      % (c["kind"], len(only_dis), sorted({cases[i]["kind"] for i in only_dis})),
                      {"kind": "correspondence", "correspondence": TIE_NAME, "case": small, "observed": ob,
                       "disagreeing_cases": len(only_dis), "oracle_fails_on_impl": o2},
                      no_input=not o2, suffix="corr")


def run(res, tier, seed):
    """A change of the code under test must never surface as an infrastructure error (exit 2) or as
    a Python traceback: whatever goes wrong while tying the model to the current source is a broken
    tie, reported as VIOLATION ... no-failing-input-found with the reason."""
    try:
        _run(res, tier, seed)
    except vlib.TieBroken:
        raise
    except vlib.InfraError as e:
        raise vlib.TieBroken("%s: the model could not be evaluated against the current source: %s" % (__name__, e))
    except Exception as e:                                   # noqa: BLE001
        import traceback
        raise vlib.TieBroken("%s: unexpected %s while checking the current source: %s\n%s"
                             % (__name__, type(e).__name__, e, traceback.format_exc()[-1500:]))


def load_corpus():
    d = os.path.join(vlib.ROOT, "corpus", "C03")
    out = []
    if os.path.isdir(d):
        for fn in sorted(os.listdir(d)):
            if fn.endswith(".json"):
                obj = json.load(open(os.path.join(d, fn)))
                out += obj if isinstance(obj, list) else [obj.get("case", obj)]
    return out


def replay(res, path):
    obj = json.load(open(path))
    c = obj.get("case")
    if not c:
        print("replay file names no concrete case:", obj.get("summary"))
        return 1
    params = lb.translate_params()
    H, thr = params["micro_per_hour"], params["radix_skip_threshold"]
    c = dict(c)
    c["id"] = 0
    ob = lb.run_harness("C03", [c], tag="replay")
    _, _, d, o = evaluate("C03", [c], ob, H, thr, "Replay_C03")
    print("case kind:", c["kind"], "| model disagrees:", bool(d), "| oracle fails:", bool(o))
    return 1 if (d or o) else 0
