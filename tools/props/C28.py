"""C28 - Query rate limits and quotas are never exceeded.

Proof: coq/theories/Govern (model of slidingWindowCounter, quotaTracker and the enforcement
half of governance.Manager composed as in api.executeQuery).  For every history of requests,
policy updates and usage reads with a non-decreasing clock:
  C28_aligned_window       every slot-aligned window of the configured length holds <= limit
  C28_any_window_twice     any window of the configured length holds <= 2*limit (exact: the
                           bound is reached, C28_any_window_refuted)
  C28_quota_period         every whole clock hour / UTC day holds <= quota (boundary instant
                           included; C28_strict_after_exceeds_quota = necessity of !now.Before)
  C28_reject_consumes_no_quota, C28_quota_only_after_rate_allowed, C28_limit_update_next_request,
  C28_delete_applies_defaults_next_request
Histories include DeletePolicy (fall back to the defaults, counts kept).
Tie 1 (translator): geometry of the two newSlidingWindowCounter call sites, order of the
governance calls in the query handler, lock discipline of the counter methods are re-extracted
from the current source into coq/gen/Params_Govern.v; Obligations.v is re-checked by coqc.
Tie 2 (correspondence): real counters / trackers / Manager under a controlled clock on
generated arrival sequences; every decision and the raw quota counters are compared with the
model inside Coq; property oracles are evaluated on the implementation's own decisions.
"""
import json
import os
import random
import re
import time

import vlib
from vlib import cz, cn, clist

AREA = "Govern"
P = "Arc.Govern.Props"
O = "Arc.Govern.Obligations"
THEOREMS = [(P, "C28_aligned_window"), (P, "C28_any_window_twice"), (P, "C28_any_window_refuted"),
            (P, "C28_quota_period"), (P, "C28_strict_after_exceeds_quota"),
            (P, "C28_reject_consumes_no_quota"), (P, "C28_quota_only_after_rate_allowed"),
            (P, "C28_limit_update_next_request"), (P, "C28_delete_applies_defaults_next_request"),
            (P, "C28_counter_aligned_window"), (P, "C28_counter_any_window_twice"),
            (P, "C28_counter_decision_spec"), (P, "C28_counter_limit_update"), (P, "C28_tracker_period"),
            (P, "C28_first_requests_share_counter"), (P, "C28_no_recheck_refuted"),
            (O, "C28_geometry"), (O, "C28_call_sites"), (O, "C28_get_or_create_rechecks"),
            (O, "C28_deployed_minute_window"), (O, "C28_deployed_hour_window"),
            (O, "C28_deployed_any_window_twice")]
MODULES = [P, O]
TIE_NAME = ("C28 correspondence (governance.slidingWindowCounter / quotaTracker / Manager vs "
            "Arc.Govern.Model) / Params_Govern")
S = 10 ** 9
MS = 10 ** 6
HOUR = 3600 * S
DAY = 24 * HOUR
GOV = "internal/governance/"
SIG_WINDOW = "window-not-slot-aligned"
SIG_BOUNDARY = "admission-at-exact-reset-instant"
SIG_DELETE = "delete-policy-drops-counters"

REWRITES = {GOV + "sliding_window.go": [("time.Now()", "verifNow()", 2)],
            GOV + "quota_tracker.go": [("time.Now()", "verifNow()", 2)],
            GOV + "manager.go": [("time.Now()", "verifNow()", 0)]}
HARNESS = {GOV + "zz_govern_verif_test.go": "harness/govern/govern_verif_test.go"}


# ---------------------------------------------------------------------------------------
# tie 1: parameters regenerated from the source
# ---------------------------------------------------------------------------------------

def _func_body(text, header_re):
    m = re.search(header_re, text, re.M)
    if not m:
        return None
    end = text.find("\nfunc ", m.end())
    return text[m.start(): end if end > 0 else len(text)]


def _eval_consts(items):
    """vlib.go_eval_consts, tolerating packages without any const/var declaration (goast
    prints JSON null for an empty list)."""
    orig = vlib.goast

    def patched(mode, *a):
        r = orig(mode, *a)
        return [] if r is None else r
    vlib.goast = patched
    try:
        return vlib.go_eval_consts(items)
    finally:
        vlib.goast = orig


def translate_params():
    sites = vlib.goast("calls", "^newSlidingWindowCounter$", "internal", "cmd") or []
    sites = [s for s in sites if not s["file"].endswith("_test.go")]
    kinds = {}
    items = []
    for s in sites:
        fn = s["func"]
        kind = "minute" if "Minute" in fn else ("hour" if "Hour" in fn else None)
        if kind is None or kind in kinds:
            raise vlib.TieBroken("newSlidingWindowCounter call site in %s:%s cannot be attributed to the minute or hour limiter" % (s["file"], fn))
        if len(s["args"]) != 3 or not (s["constlike"][0] and s["constlike"][1]):
            raise vlib.TieBroken("newSlidingWindowCounter(%s) at %s:%d: window/slot count are not constants" % (", ".join(s["args"]), s["file"], s["line"]))
        kinds[kind] = s
        items.append((kind + "_w", s["file"], s["args"][0]))
        items.append((kind + "_n", s["file"], s["args"][1]))
    if set(kinds) != {"minute", "hour"}:
        raise vlib.TieBroken("expected one minute and one hour newSlidingWindowCounter construction site, found %s" % sorted(kinds))
    vals = _eval_consts(items)

    # order of the governance calls in the query handlers
    calls = [c for c in (vlib.goast("calls", "^(CheckRateLimit|CheckQuota)$", "cmd", "internal") or [])
             if not c["file"].startswith(GOV)]
    if not calls:
        raise vlib.TieBroken("no CheckRateLimit/CheckQuota call site outside package governance")
    byfunc = {}
    for c in calls:
        byfunc.setdefault((c["file"], c["func"]), []).append((c["line"], c["callee"].split(".")[-1]))
    order_ok, returns_ok, handlers = True, True, []
    for (f, fn), cs in sorted(byfunc.items()):
        cs.sort()
        names = [n for _, n in cs]
        handlers.append("%s:%s" % (f, fn))
        if names != ["CheckRateLimit", "CheckQuota"]:
            order_ok = False
            continue
        text = open(os.path.join(vlib.REPO, f)).read()
        lines = text.split("\n")
        between = "\n".join(lines[cs[0][0] - 1: cs[1][0] - 1])
        # the rate check's rejection branch returns before the quota check is reached
        if not (re.search(r"CheckRateLimit\([^)]*\);\s*!result\.Allowed\s*\{", between) and re.search(r"\n\s*return\s", between)):
            returns_ok = False
    checks = ["CheckRateLimit", "CheckQuota"] if order_ok else ["?"]

    # lock discipline: every method of the two counter types is one critical section
    locked = []
    for rel, recv, var, methods in ((GOV + "sliding_window.go", "slidingWindowCounter", "s", ["Allow", "Remaining", "RetryAfterSec", "UpdateLimit"]),
                                    (GOV + "quota_tracker.go", "quotaTracker", "q", ["AllowQuery", "GetUsage", "UpdateLimits"])):
        text = open(os.path.join(vlib.REPO, rel)).read()
        for mname in methods:
            body = _func_body(text, r"^func \(\w+ \*%s\) %s\(" % (recv, mname))
            if body is None:
                raise vlib.TieBroken("method %s.%s not found in %s" % (recv, mname, rel))
            ok = bool(re.search(r"\{\n\s*(\w+)\.mu\.Lock\(\)\n\s*defer \1\.mu\.Unlock\(\)\n", body))
            locked.append((recv + "." + mname, ok))
    # advance()/maybeReset() read the clock themselves (inside the caller's critical section)
    sw_text = open(os.path.join(vlib.REPO, GOV + "sliding_window.go")).read()
    qt_text = open(os.path.join(vlib.REPO, GOV + "quota_tracker.go")).read()
    adv = _func_body(sw_text, r"^func \(\w+ \*slidingWindowCounter\) advance\(") or ""
    mr = _func_body(qt_text, r"^func \(\w+ \*quotaTracker\) maybeReset\(") or ""
    locked.append(("advance reads clock", "time.Now()" in adv))
    locked.append(("maybeReset reads clock", "time.Now()" in mr))

    # get-or-create helpers: the map store must sit in a write-locked section that re-checks the
    # map first (double-checked creation); a helper that stores without re-check lets two
    # concurrent first requests create a counter each
    mg_text = open(os.path.join(vlib.REPO, GOV + "manager.go")).read()
    recheck = []
    for m in re.finditer(r"^func (?:\(\w+ \*?\w+\) )?(\w*[gG]etOrCreate\w*)(?:\[[^\]]*\])?\(", mg_text, re.M):
        name = m.group(1)
        body_ = _func_body(mg_text, r"^func (?:\(\w+ \*?\w+\) )?%s(?:\[[^\]]*\])?\(" % re.escape(name))
        store = re.search(r"\n\s*[\w.]+\[\w+\]\s*=\s*\w+", body_)
        if not store:
            continue                      # pure wrapper: delegates to a helper checked on its own
        lock = re.search(r"\.Lock\(\)", body_)
        ok = bool(lock and lock.start() < store.start() and
                  re.search(r"if [^\n{]*:?=\s*[\w.]+\[\w+\]\s*;\s*ok\s*\{\s*\n\s*return\b", body_[lock.end():store.start()]))
        recheck.append((name, ok))
    if not recheck:
        raise vlib.TieBroken("no get-or-create helper with a map store found in %smanager.go" % GOV)

    body = "(* GENERATED by tools/props/C28.py from the current /repo sources - do not edit *)\n"
    body += "From Coq Require Import ZArith List String Bool.\nImport ListNotations.\nOpen Scope Z_scope.\nOpen Scope string_scope.\n"
    for kind in ("minute", "hour"):
        s = kinds[kind]
        body += "(* %s:%d %s: newSlidingWindowCounter(%s) *)\n" % (s["file"], s["line"], s["func"], ", ".join(s["args"]))
        body += "Definition %s_window_ns : Z := %d.\nDefinition %s_slots : Z := %d.\n" % (kind, vals[kind + "_w"], kind, vals[kind + "_n"])
    body += "(* governance calls per query handler, in source order (%s) *)\n" % ", ".join(handlers)
    body += "Definition handler_checks : list string := [%s].\n" % "; ".join('"%s"' % c for c in checks)
    body += "Definition rate_reject_returns_before_quota : bool := %s.\n" % ("true" if returns_ok else "false")
    body += "Definition critical_sections : list (string * bool) := [\n  " + ";\n  ".join(
        '("%s", %s)' % (n, "true" if ok else "false") for n, ok in locked) + "].\n"
    body += "(* get-or-create helpers of manager.go that store into a map: re-check under the write lock *)\n"
    body += "Definition get_or_create_recheck : list (string * bool) := [\n  " + ";\n  ".join(
        '("%s", %s)' % (n, "true" if ok else "false") for n, ok in recheck) + "].\n"
    vlib.write_params("Params_Govern", body)
    return {"get_or_create_recheck": recheck,
            "minute_w": vals["minute_w"], "minute_n": vals["minute_n"], "hour_w": vals["hour_w"], "hour_n": vals["hour_n"],
            "handlers": handlers, "handler_checks": checks, "rate_reject_returns": returns_ok,
            "critical_sections": locked}


# ---------------------------------------------------------------------------------------
# generators
# ---------------------------------------------------------------------------------------

def geom(w, n):
    n = 60 if n <= 0 else n
    d = w // n if w >= 0 else -((-w) // n)        # Go integer division truncates toward zero
    if d < MS:
        d = MS
    return d, n


BASES = [1_700_000_000 * S,                       # second-aligned
         (1_700_000_000 * S // HOUR) * HOUR,      # hour-aligned
         (1_700_000_000 * S // DAY) * DAY,        # day-aligned (UTC midnight)
         1_700_000_000 * S + 123_456_789]


def steps_for(rng, d, n, extra=()):
    w = d * n
    return [0, 0, 0, 1, rng.randrange(1, max(2, d)), d - 1, d, d + 1, 2 * d, (n - 1) * d, w - d, w - 1, w, w + 1,
            w + d, 2 * w, rng.randrange(1, 2 * w + 2)] + list(extra)


def gen_sw(rng, i):
    return with_zone(rng, gen_sw_plain(rng, i))


def gen_sw_plain(rng, i):
    w, n = rng.choice([(60 * S, 60), (60 * S, 60), (HOUR, 60), (S, 10), (100 * MS, 7), (5 * MS, 60), (60 * S, 0),
                       (60 * S, -3), (10 * S, 1), (S, 3), (7 * S, 4), (90 * S, 60)])
    d, nn = geom(w, n)
    lim = rng.choice([1, 2, 2, 3, 3, 4, 5, 0, -1])
    base = rng.choice(BASES)
    t0 = base + rng.choice([0, 0, d - 1, rng.randrange(0, d), -1, -d])
    ops, t = [], t0
    unsorted = rng.random() < 0.06
    idle_burst = (not unsorted) and rng.random() < 0.3
    nops = rng.randint(6, 28)
    idle_at = {rng.randrange(nops), rng.randrange(nops)}
    # a burst phase that fills the window, then probes around the window edge
    for k in range(nops):
        r = rng.random()
        if r < 0.72:
            ops.append({"k": "a", "t": t})
        elif r < 0.86:
            ops.append({"k": "p", "t": t})
        else:
            ops.append({"k": "l", "t": 0, "l": rng.choice([1, 2, 3, 4, 6, 0] if rng.random() < 0.3 else [1, 2, 3, 4, 6])})
        if rng.random() < 0.55:
            t += rng.choice(steps_for(rng, d, nn))
        if unsorted and rng.random() < 0.2:
            t -= rng.choice([1, d, 3 * d, nn * d])
        if idle_burst and k in idle_at:
            # the counter sits idle for at least one full window, then bursts arrive in
            # consecutive slots (the whole-ring expiry path of advance(), then normal rotation)
            t += rng.choice([nn * d, nn * d + 1, nn * d + d, 2 * nn * d, 7 * nn * d + 3])
            for j in range(rng.randint(1, 3)):
                ops += [{"k": "a", "t": t}] * (max(lim, 1) + rng.randint(1, 2))
                ops.append({"k": "p", "t": t})
                t += rng.choice([0, 1, d, d, 2 * d])
    return {"w": w, "n": n, "lim": lim, "t0": t0, "ops": ops}


# locations carried by the controlled clock: absent = time.Local (the harness sets it to UTC-11),
# UTC, UTC+14, UTC-11, UTC+5:45
ZONES = [None, None, 0, 14 * 3600, -11 * 3600, 5 * 3600 + 45 * 60]


def zone_offset(z):
    return -11 * 3600 if z is None else z


def with_zone(rng, c, z="pick"):
    z = rng.choice(ZONES) if z == "pick" else z
    if z is not None:
        c["zone"] = z
    return c


def next_local_midnight(t, z):
    """UTC instant (ns) of the first midnight of zone z strictly after t."""
    off = zone_offset(z) * S
    return ((t + off) // DAY + 1) * DAY - off


def gen_qt_local_midnight(rng):
    """Traffic on both sides of a LOCAL midnight that falls inside one UTC day: the daily counter
    must not reset there."""
    z = rng.choice([None, 14 * 3600, -11 * 3600, 5 * 3600 + 45 * 60])
    md = rng.choice([1, 2, 3])
    D = BASES[2] + rng.choice([0, DAY, 3 * DAY])
    t0 = D + rng.choice([0, 1, 60 * S, rng.randrange(HOUR)])
    L = next_local_midnight(t0, z)              # inside [D, D + 24h)
    ops = [{"k": "a", "t": t0}] * (md + rng.randint(0, 1))
    if rng.random() < 0.4:
        ops.append({"k": "u", "t": L - 1})
    ops += [{"k": "a", "t": L + rng.choice([0, 1, 60 * S])}] * (md + 1)
    if rng.random() < 0.5:
        ops += [{"k": "a", "t": D + DAY + rng.choice([0, 1])}] * (md + 1)
    return with_zone(rng, {"mh": rng.choice([0, 0, 9]), "md": md, "t0": t0, "ops": ops}, z)


def midnight_times(rng):
    """Token idle over a UTC midnight, first query of the new day at hour H >= 1, and traffic on
    the following day before and after H:00 (the daily counter must reset at 00:00 UTC, not at
    the hour of the first query of the previous day)."""
    D = BASES[2] + rng.choice([0, DAY, 5 * DAY])
    H = rng.randint(1, 7)
    day0 = D + rng.randrange(8 * HOUR, 20 * HOUR)
    first = D + DAY + H * HOUR + rng.choice([0, 1, 30 * 60 * S, rng.randrange(HOUR)])
    early = D + 2 * DAY + rng.choice([0, 1, 10 * 60 * S, rng.randrange(H * HOUR)])
    late = D + 2 * DAY + H * HOUR + rng.choice([0, 1, 5 * 60 * S, rng.randrange(HOUR)])
    return day0, first, early, late


def gen_qt_midnight(rng):
    md = rng.choice([2, 3, 4])
    mh = rng.choice([0, 0, 9])
    day0, first, early, late = midnight_times(rng)
    ops = [{"k": "a", "t": day0}] * rng.randint(0, 1) + [{"k": "a", "t": first}] * rng.randint(1, 2)
    if rng.random() < 0.3:
        ops.append({"k": "u", "t": first + 1})
    ops += [{"k": "a", "t": early}] * rng.randint(md - 1, md) + [{"k": "a", "t": late}] * (md + 1)
    if rng.random() < 0.5:
        ops += [{"k": "a", "t": late + DAY - HOUR // 2}] * 2
    return {"mh": mh, "md": md, "t0": day0, "ops": ops}


def gen_qt(rng, i):
    r0 = rng.random()
    if r0 < 0.15:
        return with_zone(rng, gen_qt_midnight(rng))
    if r0 < 0.3:
        return gen_qt_local_midnight(rng)
    return with_zone(rng, gen_qt_plain(rng, i))


def gen_qt_plain(rng, i):
    mh = rng.choice([1, 2, 2, 3, 0, 4])
    md = rng.choice([0, 0, 2, 3, 5, 6])
    base = rng.choice(BASES[1:3])
    t0 = base + rng.choice([-1, 0, 1, -HOUR + 1, rng.randrange(0, HOUR), -rng.randrange(1, HOUR)])
    ops, t = [], t0
    unsorted = rng.random() < 0.05
    for k in range(rng.randint(4, 16)):
        r = rng.random()
        if r < 0.74:
            ops.append({"k": "a", "t": t})
        elif r < 0.86:
            ops.append({"k": "u", "t": t})
        else:
            ops.append({"k": "l", "t": 0, "mh": rng.choice([1, 2, 3, 5] + ([0] if rng.random() < 0.3 else [])),
                        "md": rng.choice([2, 3, 5, 8] + ([0] if rng.random() < 0.3 else []))})
        if rng.random() < 0.6:
            nxt_h = (t // HOUR + 1) * HOUR
            nxt_d = (t // DAY + 1) * DAY
            nxt_l = next_local_midnight(t, rng.choice(ZONES))
            t = rng.choice([t, t + 1, t + rng.randrange(1, HOUR), nxt_h - 1, nxt_h, nxt_h, nxt_h + 1, nxt_d - 1, nxt_d, nxt_d + 1,
                            nxt_l - 1, nxt_l, nxt_l + 1, t + HOUR, t + DAY, t + 2 * HOUR + 5])
        if unsorted and rng.random() < 0.2:
            t -= rng.choice([1, HOUR, DAY])
    return {"mh": mh, "md": md, "t0": t0, "ops": ops}


def rnd_policy(rng, allow_zero, minute_only=False):
    z = [0] if allow_zero else []
    if minute_only:      # only the per-minute limiter is active: its decisions are fully specified
        return {"min": rng.choice([1, 2, 2, 3, 4]), "hr": 0, "qh": rng.choice([0, 3, 6]), "qd": rng.choice([0, 9])}
    return {"min": rng.choice([1, 2, 2, 3, 4] + z), "hr": rng.choice([0, 0, 3, 5, 8] if allow_zero else [3, 5, 8, 0]),
            "qh": rng.choice([2, 3, 4, 6] + z + z), "qd": rng.choice([0, 4, 6, 9])}


def gen_mgr_midnight(rng):
    md = rng.choice([2, 3])
    day0, first, early, late = midnight_times(rng)
    items, rid = [], [0]

    def reqs(n, t):
        for _ in range(n):
            rid[0] += 1
            items.extend([{"k": "rate", "tok": 1, "rid": rid[0], "t": t}, {"k": "quota", "tok": 1, "rid": rid[0], "t": t}])
    reqs(rng.randint(0, 1), day0)
    reqs(1, first)
    if rng.random() < 0.3:
        items.append({"k": "usage", "tok": 1, "t": first + 1})
    reqs(rng.randint(md - 1, md), early)
    reqs(md + 1, late)
    return {"def": {"min": 0, "hr": 0, "qh": rng.choice([0, 0, 9]), "qd": md}, "items": items}


def gen_mgr_local_midnight(rng):
    z = rng.choice([None, 14 * 3600, -11 * 3600, 5 * 3600 + 45 * 60])
    md = rng.choice([1, 2, 3])
    D = BASES[2] + rng.choice([0, DAY])
    t0 = D + rng.choice([0, 1, rng.randrange(HOUR)])
    L = next_local_midnight(t0, z)
    items, rid = [], [0]

    def reqs(n, t):
        for _ in range(n):
            rid[0] += 1
            items.extend([{"k": "rate", "tok": 1, "rid": rid[0], "t": t}, {"k": "quota", "tok": 1, "rid": rid[0], "t": t}])
    if rng.random() < 0.3:
        items.append({"k": "usage", "tok": 1, "t": t0})      # GetTokenUsage before any tracker exists
    reqs(md + rng.randint(0, 1), t0)
    reqs(md + 1, L + rng.choice([0, 1, 60 * S]))
    return with_zone(rng, {"def": {"min": 0, "hr": 0, "qh": rng.choice([0, 0, 9]), "qd": md}, "items": items}, z)


def delete_policy_family():
    """Fixed family (runs every time): a token with its own quota policy has used most of the period's
    quota, the policy is deleted, and the token goes on querying in the same hour / UTC day under every
    shape of config defaults (no quota, hourly only, daily only, both): the usage of the period must
    survive the deletion whenever a default quota still applies."""
    out = []
    B = BASES[2] + 5 * HOUR + 7
    for dflt in ({"qh": 0, "qd": 0}, {"qh": 5, "qd": 0}, {"qh": 0, "qd": 5}, {"qh": 5, "qd": 5}, {"qh": 3, "qd": 9}):
        for pol in ({"qh": 5, "qd": 0}, {"qh": 0, "qd": 5}, {"qh": 4, "qd": 6}):
            items, rid = [{"k": "set", "tok": 1, "p": dict({"min": 0, "hr": 0}, **pol)}], 0
            for n, with_del in ((4, True), (10, False)):
                for _ in range(n):
                    rid += 1
                    items += [{"k": "rate", "tok": 1, "rid": rid, "t": B}, {"k": "quota", "tok": 1, "rid": rid, "t": B}]
                if with_del:
                    items.append({"k": "del", "tok": 1})
            items.append({"k": "usage", "tok": 1, "t": B})
            out.append({"def": dict({"min": 0, "hr": 0}, **dflt), "items": items})
    return out


def gen_mgr(rng, i, prm):
    r0 = rng.random()
    if r0 < 0.07:
        return with_zone(rng, gen_mgr_midnight(rng))
    if r0 < 0.14:
        return gen_mgr_local_midnight(rng)
    return with_zone(rng, gen_mgr_plain(rng, i, prm))


def gen_mgr_plain(rng, i, prm):
    dm, nm = geom(prm["minute_w"], prm["minute_n"])
    dh, nh = geom(prm["hour_w"], prm["hour_n"])
    allow_zero = rng.random() < 0.25
    minute_only = rng.random() < 0.3
    if minute_only:
        _rp = rnd_policy
        rnd_pol = lambda r, z: _rp(r, z, True)
        dflt = rnd_pol(rng, allow_zero)
    else:
        rnd_pol = rnd_policy
        dflt = rng.choice([{"min": 0, "hr": 0, "qh": 0, "qd": 0}, rnd_policy(rng, allow_zero), rnd_policy(rng, allow_zero)])
    toks = [1] if rng.random() < 0.6 else [1, 2]
    with_del = rng.random() < 0.15
    with_burst = rng.random() < 0.12
    unsorted = rng.random() < 0.04
    base = rng.choice(BASES)
    t = base + rng.choice([0, dm - 1, -1, rng.randrange(0, dm), -rng.randrange(1, HOUR)])
    items, rid, pending = [], 0, []
    # the token is first served under the config defaults (trackers exist), THEN gets its policy
    late_create = rng.random() < 0.2
    if late_create:
        if max(dflt["min"], dflt["qh"]) <= 0:
            dflt = rnd_pol(rng, False)
        for tk in toks:
            for j in range(rng.randint(1, 4)):
                rid += 1
                items += [{"k": "rate", "tok": tk, "rid": rid, "t": t}, {"k": "quota", "tok": tk, "rid": rid, "t": t}]
            items.append({"k": "set", "tok": tk, "p": rnd_pol(rng, False)})
            for j in range(rng.randint(2, 5)):
                rid += 1
                items += [{"k": "rate", "tok": tk, "rid": rid, "t": t}, {"k": "quota", "tok": tk, "rid": rid, "t": t}]
    elif rng.random() < 0.7:
        for tk in toks:
            if rng.random() < 0.8:
                items.append({"k": "set", "tok": tk, "p": rnd_pol(rng, allow_zero)})
    for k in range(rng.randint(6, 30)):
        tk = rng.choice(toks)
        r = rng.random()
        if r < 0.62:
            rid += 1
            items.append({"k": "rate", "tok": tk, "rid": rid, "t": t})
            if rng.random() < 0.8:
                items.append({"k": "quota", "tok": tk, "rid": rid, "t": t})
            else:
                pending.append((tk, rid))          # quota check of this request interleaves later
        elif r < 0.72 and pending:
            tk2, r2 = pending.pop(rng.randrange(len(pending)))
            items.append({"k": "quota", "tok": tk2, "rid": r2, "t": t})
        elif r < 0.80:
            items.append({"k": "set", "tok": tk, "p": rnd_pol(rng, allow_zero)})
        elif r < 0.88:
            items.append({"k": "usage", "tok": tk, "t": t})
        elif r < 0.92 and with_del:
            items.append({"k": "del", "tok": tk})
        elif r < 0.97 and with_burst:
            items.append({"k": "burst", "tok": tk, "t": t, "n": rng.randint(2, 12), "g": rng.randint(2, 6)})
        if rng.random() < 0.5:
            nxt_h = (t // HOUR + 1) * HOUR
            nxt_d = (t // DAY + 1) * DAY
            nxt_l = next_local_midnight(t, rng.choice(ZONES))
            t = rng.choice([t + x for x in steps_for(rng, dm, nm)] + [t + dh, t + nh * dh, t + nh * dh - 1, nxt_h, nxt_h, nxt_h - 1, nxt_h + 1, nxt_d, nxt_d + 1, nxt_l, nxt_l + 1])
        if unsorted and rng.random() < 0.2:
            t -= rng.choice([1, dm, 61 * S])
        if (not unsorted) and rng.random() < 0.04:
            # idle for at least one full minute window, then a burst in consecutive slots
            t += rng.choice([nm * dm, nm * dm + 1, 2 * nm * dm, nh * dh + 5])
            tk = rng.choice(toks)
            for j in range(rng.randint(1, 2)):
                for q in range(rng.randint(3, 6)):
                    rid += 1
                    items += [{"k": "rate", "tok": tk, "rid": rid, "t": t}, {"k": "quota", "tok": tk, "rid": rid, "t": t}]
                t += rng.choice([1, dm, 2 * dm])
    for tk2, r2 in pending:
        items.append({"k": "quota", "tok": tk2, "rid": r2, "t": t})
    return {"def": dflt, "items": items}


def witness_cases(prm):
    """Refutation witness of C28_any_window_refuted and the regression inputs of the two repaired
    defects (boundary-instant quota, DeletePolicy) on the deployed geometry (run first)."""
    dm, nm = geom(prm["minute_w"], prm["minute_n"])
    B = BASES[1]
    sw = [{"w": prm["minute_w"], "n": prm["minute_n"], "lim": 3, "t0": B,
           "ops": [{"k": "a", "t": B + dm - 1}] * 4 + [{"k": "a", "t": B + nm * dm}] * 4, "witness": SIG_WINDOW}]
    qt = [{"mh": 2, "md": 0, "t0": B + 1,
           "ops": [{"k": "a", "t": B + 1}, {"k": "a", "t": B + HOUR}] + [{"k": "a", "t": B + HOUR + 1}] * 3, "witness": SIG_BOUNDARY},
          # idle over midnight, first query of the day at 03:30, next day traffic at 00:10 and 03:05
          {"mh": 0, "md": 3, "t0": BASES[2] + 10 * HOUR,
           "ops": [{"k": "a", "t": BASES[2] + DAY + 3 * HOUR + HOUR // 2}] + [{"k": "a", "t": BASES[2] + 2 * DAY + HOUR // 6}] * 2 +
                  [{"k": "a", "t": BASES[2] + 2 * DAY + 3 * HOUR + HOUR // 12}] * 4, "witness": "utc-day-boundary"},
          # a local midnight (time.Local = UTC-11: 11:00 UTC; UTC+14: 10:00 UTC) inside one UTC day
          {"mh": 0, "md": 2, "t0": BASES[2] + HOUR,
           "ops": [{"k": "a", "t": BASES[2] + HOUR}] * 3 + [{"k": "a", "t": BASES[2] + 11 * HOUR + 1}] * 3, "witness": "local-midnight"},
          {"mh": 0, "md": 2, "t0": BASES[2] + HOUR, "zone": 14 * 3600,
           "ops": [{"k": "a", "t": BASES[2] + HOUR}] * 3 + [{"k": "a", "t": BASES[2] + 10 * HOUR}] * 3, "witness": "local-midnight"},
          {"mh": 0, "md": 2, "t0": BASES[2] + 1,
           "ops": [{"k": "a", "t": BASES[2] + 1}, {"k": "a", "t": BASES[2] + DAY}] + [{"k": "a", "t": BASES[2] + DAY + 1}] * 3, "witness": SIG_BOUNDARY}]

    def reqs(tok, r0, n, t):
        out = []
        for j in range(n):
            out += [{"k": "rate", "tok": tok, "rid": r0 + j, "t": t}, {"k": "quota", "tok": tok, "rid": r0 + j, "t": t}]
        return out
    mgr = [{"def": {"min": 3, "hr": 0, "qh": 0, "qd": 0}, "witness": SIG_WINDOW,
            "items": reqs(1, 1, 4, B + dm - 1) + reqs(1, 11, 4, B + nm * dm)},
           {"def": {"min": 0, "hr": 0, "qh": 2, "qd": 0}, "witness": SIG_BOUNDARY,
            "items": reqs(1, 1, 1, B + 1) + reqs(1, 2, 1, B + HOUR) + reqs(1, 3, 3, B + HOUR + 1)},
           {"def": {"min": 2, "hr": 0, "qh": 0, "qd": 0}, "witness": SIG_DELETE,
            "items": [{"k": "set", "tok": 1, "p": {"min": 2, "hr": 0, "qh": 0, "qd": 0}}] + reqs(1, 1, 3, B) +
                     [{"k": "del", "tok": 1}] + reqs(1, 11, 3, B)}]
    return sw, qt, mgr


# ---------------------------------------------------------------------------------------
# running the implementation
# ---------------------------------------------------------------------------------------

def run_impl(sw, qt, mgr, tag, prm=None, first=None):
    out = vlib.run_go_harness("C28", "./" + GOV, "^TestVerifGovern$", HARNESS,
                              {"sw": sw, "qt": qt, "mgr": mgr, "first": first or []}, rewrites=REWRITES, tag=tag)
    if first is not None:
        got = out.get("first") or []
        if len(got) != len(first):
            raise vlib.TieBroken("C28 harness returned %d first-request results for %d" % (len(got), len(first)))
        for f, o in zip(first, got):
            f.update(o)
    for key, inp in (("sw", sw), ("qt", qt), ("mgr", mgr)):
        got = out.get(key) or []
        if len(got) != len(inp):
            raise vlib.TieBroken("C28 harness returned %d %s results for %d cases" % (len(got), key, len(inp)))
    for c, o in zip(sw, out["sw"] or []):
        c["obs"] = o["obs"]
    for c, o in zip(qt, out["qt"] or []):
        c["obs"] = o["obs"]
    for c, o in zip(mgr, out["mgr"] or []):
        for it, io in zip(c["items"], o["items"]):
            it["o"], it["raw"] = io["o"], io["raw"]
    if prm is not None:
        mg, hg = out.get("min_geom"), out.get("hr_geom")
        if not mg or not hg or mg[:2] != [prm["minute_w"], prm["minute_n"]] or hg[:2] != [prm["hour_w"], prm["hour_n"]]:
            raise vlib.TieBroken("limiter geometry of the live Manager %s/%s differs from the extracted call-site parameters %s" % (mg, hg, prm))
        if mg[3] != geom(mg[0], mg[1])[1] or mg[2] != geom(mg[0], mg[1])[0] or hg[3] != geom(hg[0], hg[1])[1] or hg[2] != geom(hg[0], hg[1])[0]:
            raise vlib.TieBroken("slot count/duration of the live limiters %s/%s differ from geom_n/geom_d of the model" % (mg, hg))
    return out


def first_trials(tier):
    k = 1 if tier == "quick" else 8
    return [{"trials": 2500 * k, "g": 8, "lim": 1, "t": BASES[1]},
            {"trials": 1200 * k, "g": 16, "lim": 1, "t": BASES[1]},
            {"trials": 600 * k, "g": 6, "lim": 2, "t": BASES[0]}]


def first_cases(f):
    """The extreme trials of a first-request experiment as manager cases (one concurrent burst on a
    token without trackers): the model admits exactly min(g, lim) at every check."""
    dflt = {"min": f["lim"], "hr": f["lim"], "qh": f["lim"], "qd": f["lim"]}
    rec = {k: f[k] for k in ("trials", "g", "lim", "t", "procs", "max_ra", "max_qa", "min_ra", "min_qa", "exceed", "worst")}
    worst = {"def": dflt, "tok": 1, "first": rec,
             "items": [{"k": "burst", "tok": 1, "t": f["t"], "n": f["g"], "g": f["g"],
                        "o": [f["max_ra"], f["max_qa"]], "raw": f["worst"][3:5] if f["max_ra"] + f["max_qa"] == f["worst"][1] + f["worst"][2] else [f["max_qa"], f["max_qa"]]}]}
    least = {"def": dflt, "tok": 1, "first": rec,
             "items": [{"k": "burst", "tok": 1, "t": f["t"], "n": f["g"], "g": f["g"],
                        "o": [f["min_ra"], f["min_qa"]], "raw": [f["min_qa"], f["min_qa"]]}]}
    return [worst, least]


def project(mc):
    """One single-token history per token of a manager case."""
    toks = sorted({it["tok"] for it in mc["items"]})
    out = []
    for tk in toks:
        c = {"def": mc["def"], "tok": tk, "items": [it for it in mc["items"] if it["tok"] == tk], "witness": mc.get("witness")}
        if "zone" in mc:
            c["zone"] = mc["zone"]
        out.append(c)
    return out


# ---------------------------------------------------------------------------------------
# Coq terms
# ---------------------------------------------------------------------------------------

def zl(xs):
    return clist([cz(x) for x in xs])


def sw_term(c):
    ops = []
    for o in c["ops"]:
        ops.append({"a": "OAllow %s", "p": "OPeek %s", "l": "OLimit %s"}[o["k"]] % cz(o["l"] if o["k"] == "l" else o["t"]))
    return "{| sc_w := %s; sc_n := %s; sc_lim := %s; sc_t0 := %s; sc_ops := %s; sc_obs := %s |}" % (
        cz(c["w"]), cz(c["n"]), cz(c["lim"]), cz(c["t0"]), clist(ops), zl(c["obs"]))


def qt_term(c):
    ops = []
    for o in c["ops"]:
        if o["k"] == "l":
            ops.append("QLimits %s %s" % (cz(o["mh"]), cz(o["md"])))
        else:
            ops.append(("QAllow %s" if o["k"] == "a" else "QUsage %s") % cz(o["t"]))
    obs = ["(%s, %s)" % (cz(o[0]), zl(o[1:])) for o in c["obs"]]
    return "{| qc_mh := %s; qc_md := %s; qc_t0 := %s; qc_ops := %s; qc_obs := %s |}" % (
        cz(c["mh"]), cz(c["md"]), cz(c["t0"]), clist(ops), clist(obs))


def pol_term(p):
    return "{| p_min := %s; p_hr := %s; p_qh := %s; p_qd := %s |}" % (cz(p["min"]), cz(p["hr"]), cz(p["qh"]), cz(p["qd"]))


def mgr_term(c, prm):
    its = []
    for it in c["items"]:
        k = it["k"]
        if k == "burst":
            its.append("IBurst %s %d %s %s %s" % (cz(it["t"]), it["n"], cz(it["o"][0]), cz(it["o"][1]), zl(it["raw"])))
            continue
        if k == "rate":
            e = "ERate %s %s" % (cn(it["rid"]), cz(it["t"]))
        elif k == "quota":
            e = "EQuota %s %s" % (cn(it["rid"]), cz(it["t"]))
        elif k == "set":
            e = "ESet %s" % pol_term(it["p"])
        elif k == "del":
            e = "EDel"
        else:
            e = "EUsage %s" % cz(it["t"])
        its.append("IEv (%s) %s %s" % (e, zl(it["o"]), zl(it["raw"])))
    cfg = "{| c_min_w := %s; c_min_n := %s; c_hr_w := %s; c_hr_n := %s; c_def := %s |}" % (
        cz(prm["minute_w"]), cz(prm["minute_n"]), cz(prm["hour_w"]), cz(prm["hour_n"]), pol_term(c["def"]))
    return "{| mc_cfg := %s; mc_items := %s |}" % (cfg, clist(its))


HEADER = "From Coq Require Import List ZArith NArith.\nFrom Arc Require Import Govern.Model.\nImport ListNotations.\n"
SW_PREDS = {"agree": "swcase_agrees", "sorted": "swcase_sorted", "aligned": "swcase_oracle_aligned", "decisions": "swcase_oracle_decisions",
            "any": "swcase_oracle_any", "twice": "swcase_oracle_twice"}
QT_PREDS = {"agree": "qtcase_agrees", "sorted": "qtcase_sorted", "open": "qtcase_oracle_open", "strict": "qtcase_oracle_strict"}
MG_PREDS = {"agree": "mcase_agrees", "sorted": "mcase_sorted", "guarded": "mcase_oracle_guarded", "strict": "mcase_oracle_strict"}


def evaluate(sw, qt, mg, prm, name, per_file=60):
    """-> three dicts {pred: set(indices where the predicate is FALSE)}.  The case files are
    compiled by several coqc processes in parallel (parsing the numerals dominates)."""
    from concurrent.futures import ThreadPoolExecutor
    jobs = []
    for terms, typ, preds, nm in (([sw_term(c) for c in sw], "swcase", SW_PREDS, "sw"),
                                  ([qt_term(c) for c in qt], "qtcase", QT_PREDS, "qt"),
                                  ([mgr_term(c, prm) for c in mg], "mcase", MG_PREDS, "mg")):
        for off in range(0, len(terms), per_file):
            jobs.append((nm, off, typ, preds, terms[off:off + per_file]))

    def one(job):
        nm, off, typ, preds, part = job
        # one small Definition per case: a single huge list literal is much slower to parse
        hdr = HEADER + "".join("Definition k%d : %s := %s.\n" % (j, typ, t) for j, t in enumerate(part))
        d = vlib.coq_check_cases("C28", hdr, typ, ["k%d" % j for j in range(len(part))], preds,
                                 chunk=len(part) + 1, name="%s_%s_%d" % (name, nm, off))
        return nm, off, d
    out = {"sw": {k: set() for k in SW_PREDS}, "qt": {k: set() for k in QT_PREDS}, "mg": {k: set() for k in MG_PREDS}}
    with ThreadPoolExecutor(max_workers=max(2, min(10, vlib.NCPU - 2))) as ex:
        for nm, off, d in ex.map(one, jobs):
            for k, v in d.items():
                out[nm][k].update(off + x for x in v)
    return [out["sw"], out["qt"], out["mg"]]


def classify(kind, i, f):
    """Verdict of one case from the sets of failed predicates.
    -> ('ok'|'disagree'|'guarded-fail'|'unsorted', signature-or-None)"""
    if i in f["agree"]:
        return "disagree", None
    if i in f["sorted"]:
        return "unsorted", None               # clock went backwards: outside the theorems' domain
    if kind == "sw":
        if i in f["aligned"] or i in f["twice"] or i in f["decisions"]:
            return "guarded-fail", None
        return "ok", (SIG_WINDOW if i in f["any"] else None)
    if kind == "qt":
        # whole clock hours / UTC days (boundary instant included) is what is proved
        if i in f["open"] or i in f["strict"]:
            return "guarded-fail", None
        return "ok", None
    if i in f["guarded"]:
        return "guarded-fail", None
    return "ok", (SIG_WINDOW if i in f["strict"] else None)


# ---------------------------------------------------------------------------------------
# non-triviality, hashing
# ---------------------------------------------------------------------------------------

def _dense(times, L, span):
    ts = sorted(times)
    return L > 0 and any(ts[i + L - 1] - ts[i] <= span for i in range(0, len(ts) - L + 1))


def nontrivial(kind, c, prm):
    """>= limit arrivals within two windows of some limiter / quota period (DESIGN.md table)."""
    if kind == "sw":
        d, n = geom(c["w"], c["n"])
        lims = [x for x in [c["lim"]] + [o["l"] for o in c["ops"] if o["k"] == "l"] if x > 0]
        return bool(lims) and _dense([o["t"] for o in c["ops"] if o["k"] == "a"], min(lims), 2 * d * n)
    if kind == "qt":
        arr = [o["t"] for o in c["ops"] if o["k"] == "a"]
        lh = [x for x in [c["mh"]] + [o["mh"] for o in c["ops"] if o["k"] == "l"] if x > 0]
        ld = [x for x in [c["md"]] + [o["md"] for o in c["ops"] if o["k"] == "l"] if x > 0]
        return (bool(lh) and _dense(arr, min(lh), 2 * HOUR)) or (bool(ld) and _dense(arr, min(ld), 2 * DAY))
    pols = [c["def"]] + [it["p"] for it in c["items"] if it["k"] == "set"]
    arr = []
    for it in c["items"]:
        if it["k"] == "rate":
            arr.append(it["t"])
        elif it["k"] == "burst":
            arr += [it["t"]] * it["n"]
    for field, span in (("min", 2 * prm["minute_w"]), ("hr", 2 * prm["hour_w"]), ("qh", 2 * HOUR), ("qd", 2 * DAY)):
        ls = [p[field] for p in pols if p[field] > 0]
        if ls and _dense(arr, min(ls), span):
            return True
    return False


def strip(c):
    c = json.loads(json.dumps(c))
    c.pop("obs", None)
    c.pop("witness", None)
    for it in c.get("items", []):
        it.pop("o", None)
        it.pop("raw", None)
    return c


def chash(kind, c):
    return kind + json.dumps(strip(c), sort_keys=True)


# ---------------------------------------------------------------------------------------
# shrinking (batched: one harness run + one coqc per round)
# ---------------------------------------------------------------------------------------

def shrink(kind, case, prm, bad, rounds=10):
    """Remove chunks of ops/items while `bad(kind, i, failed)` stays true."""
    if case.get("first"):
        # a statistic over many concurrent trials: nothing to shrink, the record is the input
        c = json.loads(json.dumps(case))
        f = evaluate([], [], [c], prm, "Shrink")[2]
        return c, f
    key = "items" if kind == "mg" else "ops"
    cur = strip(case)
    for _ in range(rounds):
        seq = cur[key]
        cands, seen = [], set()
        size = max(1, len(seq) // 2)
        while size >= 1:
            for off in range(0, len(seq), size):
                cand = seq[:off] + seq[off + size:]
                h = json.dumps(cand, sort_keys=True)
                if cand and h not in seen:
                    seen.add(h)
                    cands.append(dict(cur, **{key: cand}))
            size //= 2
        if not cands:
            break
        cands.sort(key=lambda c: len(c[key]))
        cands = [json.loads(json.dumps(c)) for c in cands[:120]]
        sw = cands if kind == "sw" else []
        qt = cands if kind == "qt" else []
        mg = cands if kind == "mg" else []
        run_impl(sw, qt, mg, "shrink")
        fs = evaluate(sw, qt, mg, prm, "Shrink")
        f = fs[{"sw": 0, "qt": 1, "mg": 2}[kind]]
        nxt = next((c for i, c in enumerate(cands) if bad(kind, i, f)), None)
        if nxt is None:
            break
        cur = strip(nxt)
    sw = [cur] if kind == "sw" else []
    qt = [cur] if kind == "qt" else []
    mg = [cur] if kind == "mg" else []
    run_impl(sw, qt, mg, "shrink")
    f = evaluate(sw, qt, mg, prm, "Shrink")[{"sw": 0, "qt": 1, "mg": 2}[kind]]
    return cur, f


# ---------------------------------------------------------------------------------------
# the check
# ---------------------------------------------------------------------------------------

def setup():
    translate_params()


def warm():
    run_impl([], [], [], "warm")


WHAT = {
    SIG_WINDOW: "the slotted window only bounds slot-aligned windows: a burst at the end of one slot and another one window later admits 2x the limit inside one window of the configured length (C28_any_window_refuted; bound C28_any_window_twice)",
}


def run(res, tier, seed):
    rng = random.Random(seed * 7919 + 28)
    t0 = time.time()
    try:
        prm = translate_params()
    finally:
        res.stage("translate_params", t0)
    res.cov["params"] = prm

    failed = vlib.std_proof_stage(res, "C28", AREA, MODULES, THEOREMS,
                                  extra_targets=["theories/Govern/Obligations.vo"])
    res.cov["trusted_base"] += [
        "each method of slidingWindowCounter / quotaTracker is one critical section that reads the clock inside it (checked textually: Params_Govern.critical_sections), so concurrent requests are a sequence of atomic model steps with non-decreasing clock readings; Go mutex semantics trusted",
        "clock non-decreasing (hypothesis nondecr of the window/quota theorems); wall-clock jumps backwards are exercised by the correspondence only",
        "api.executeQuery's composition (CheckRateLimit, return on rejection, CheckQuota) is re-composed by the harness; its order is re-extracted from internal/api/query.go each run (Params_Govern.handler_checks, C28_call_sites)",
        "tokens are independent map entries: multi-token histories are compared per token against the single-token model",
        "get-or-create of a token's counter is modelled as its two critical sections (C28_first_requests_share_counter / C28_no_recheck_refuted); that the Go helpers re-check under the write lock is checked textually each run (Params_Govern.get_or_create_recheck, C28_get_or_create_rechecks) and exercised by concurrent first-request trials on fresh tokens (a race: detection is probabilistic, numbers in histogram.concurrent_first_request_trials)",
        "the controlled clock returns the model's UTC-integer instants as time.Time values carrying a non-UTC location (time.Local = UTC-11 set by the harness, or fixed zones UTC, +14h, -11h, +5:45 per case); real zone databases / DST transitions are not exercised",
        "Go int / time.Duration overflow not modelled (times < year 2262, counters unbounded Z); RetryAfterSec's value, MaxRows/MaxDuration and the SQLite policy store are not modelled",
    ]

    nsw, nqt, nmg = (320, 220, 300) if tier == "quick" else (5000, 3000, 4000)
    t1 = time.time()
    wsw, wqt, wmg = witness_cases(prm)
    corpus = []
    cdir = os.path.join(vlib.ROOT, "corpus", "C28")
    if os.path.isdir(cdir):
        for fn in sorted(os.listdir(cdir)):
            if fn.endswith(".json"):
                corpus.append(json.load(open(os.path.join(cdir, fn))))
    sw = wsw + [strip(c["case"]) for c in corpus if c.get("type") == "sw"] + [gen_sw(rng, i) for i in range(nsw)]
    qt = wqt + [strip(c["case"]) for c in corpus if c.get("type") == "qt"] + [gen_qt(rng, i) for i in range(nqt)]
    mgr = wmg + delete_policy_family() + [strip(c["case"]) for c in corpus if c.get("type") == "mg"] + [gen_mgr(rng, i, prm) for i in range(nmg)]
    first = first_trials(tier)
    run_impl(sw, qt, mgr, tier, prm, first=first)
    res.stage("impl_harness", t1)
    mg = [p for c in mgr for p in project(c)] + [c for f in first for c in first_cases(f)]
    t2 = time.time()
    fsw, fqt, fmg = evaluate(sw, qt, mg, prm, "Cases_" + tier)
    res.stage("coq_eval", t2)

    groups = (("sw", sw, fsw), ("qt", qt, fqt), ("mg", mg, fmg))
    verdicts = {"ok": 0, "disagree": 0, "guarded-fail": 0, "unsorted": 0}
    sigs = {}
    disagree, gfail = [], []
    for kind, cases, f in groups:
        for i, c in enumerate(cases):
            v, sig = classify(kind, i, f)
            verdicts[v] += 1
            if v == "disagree":
                disagree.append((kind, i))
            elif v == "guarded-fail":
                gfail.append((kind, i))
            if sig:
                sigs.setdefault(sig, []).append((kind, i))

    total = len(sw) + len(qt) + len(mg)
    res.cov["evaluations"] = total
    keys = set()
    for kind, cases, _ in groups:
        for c in cases:
            if nontrivial(kind, c, prm):
                keys.add(chash(kind, c))
    res.cov["distinct_nontrivial"] = len(keys)
    res.cov["rule"] = ("arrival sequences for the counter (12 window/slot geometries incl. non-dividing, 1 ms floor, default slot count), "
                       "the quota tracker and the Manager (1-2 tokens, interleaved rate/quota calls of different requests, policy "
                       "create/update/delete, usage reads, concurrent bursts), steps drawn around slot / window / hour / UTC-day edges; "
                       "non-trivial = at least `limit` arrivals within two windows (periods) of some limiter or quota in force; "
                       "distinct by the full input; ~5% of the sequences have a clock that jumps backwards (agreement only); the clock hands the code "
                       "times located in time.Local (set to UTC-11), UTC, UTC+14, UTC-11 or UTC+5:45, with traffic on both sides of UTC and local midnights")
    res.cov["model_vs_impl_disagreements"] = len(disagree)
    res.cov["oracle_failures"] = len(gfail)
    res.cov["strict_oracle_failures_by_signature"] = {k: len(v) for k, v in sigs.items()}

    def cnt_items(pred):
        return sum(1 for c in mg for it in c["items"] if pred(it))
    res.cov["histogram"] = {
        "cases": {"counter": len(sw), "tracker": len(qt), "manager_token_histories": len(mg), "manager_runs": len(mgr)},
        "verdicts": verdicts,
        "counter_ops": {k: sum(1 for c in sw for o in c["ops"] if o["k"] == k) for k in ("a", "p", "l")},
        "counter_decisions": {"admitted": sum(1 for c in sw for o, v in zip(c["ops"], c["obs"]) if o["k"] == "a" and v == 1),
                              "rejected": sum(1 for c in sw for o, v in zip(c["ops"], c["obs"]) if o["k"] == "a" and v == 0)},
        "tracker_codes": {str(k): sum(1 for c in qt for o in c["obs"] if o[0] == k) for k in (0, 1, 2)},
        "clock_location": {str(z): sum(1 for cs_ in (sw, qt, mgr) for c in cs_ if c.get("zone", "local(UTC-11)") == z)
                           for z in ("local(UTC-11)", 0, 14 * 3600, -11 * 3600, 5 * 3600 + 45 * 60)},
        "manager_items": {k: cnt_items(lambda it, k=k: it["k"] == k) for k in ("rate", "quota", "set", "del", "usage", "burst")},
        "concurrent_first_request_trials": [{k: f[k] for k in ("trials", "g", "lim", "procs", "max_ra", "max_qa", "min_ra", "min_qa", "exceed")} for f in first],
        "manager_rate": {"allowed": cnt_items(lambda it: it["k"] == "rate" and it["o"] == [1, 1]),
                         "rejected": cnt_items(lambda it: it["k"] == "rate" and it["o"] == [1, 0])},
        "manager_quota": {"allowed": cnt_items(lambda it: it["k"] == "quota" and it["o"] == [2, 0]),
                          "hourly": cnt_items(lambda it: it["k"] == "quota" and it["o"] == [2, 1]),
                          "daily": cnt_items(lambda it: it["k"] == "quota" and it["o"] == [2, 2]),
                          "skipped_after_429": cnt_items(lambda it: it["k"] == "quota" and it["o"] == [3])},
    }
    res.cov["samples"] = [sw[len(wsw)], qt[len(wqt)], mg[len(wmg) + 1] if len(mg) > len(wmg) + 1 else mg[-1]]

    # 1. model/implementation disagreement
    F = {"sw": fsw, "qt": fqt, "mg": fmg}
    C = {"sw": sw, "qt": qt, "mg": mg}

    def oracle_bad(k, j, ff):
        return classify(k, j, dict(ff, agree=set()))[0] == "guarded-fail"
    if disagree:
        # prefer a disagreeing case on which the implementation's own output breaks the property
        both = [(k, i) for k, i in disagree if oracle_bad(k, i, F[k])]
        if both:
            kind, i = both[0]
            small, f = shrink(kind, C[kind][i], prm, oracle_bad)
        else:
            kind, i = disagree[0]
            small, f = shrink(kind, C[kind][i], prm, lambda k, j, ff: j in ff["agree"])
        guarded_bad = oracle_bad(kind, 0, f)
        what = "model and implementation disagree on a %s history" % {"sw": "counter", "qt": "quota tracker", "mg": "manager"}[kind]
        if small.get("first"):
            fr = small["first"]
            what = ("%d concurrent FIRST requests of a token without limiter/tracker (limit %d): up to %d passed the rate check and %d the quota check "
                    "(%d of %d trials exceeded the limit); the model admits exactly %d" % (fr["g"], fr["lim"], fr["max_ra"], fr["max_qa"], fr["exceed"], fr["trials"], min(fr["g"], fr["lim"])))
        res.violation(what,
                      {"kind": "concurrent-first-requests" if small.get("first") else "correspondence", "correspondence": TIE_NAME, "type": kind, "case": small,
                       "disagreeing_cases": len(disagree), "oracle_fails_on_impl": guarded_bad,
                       "how_to_replay": "python3 tools/check.py C28 --replay <this file>"},
                      no_input=not guarded_bad, suffix="corr")
    # 2. a guarded oracle (what the theorems prove) fails on the implementation's own decisions
    if gfail:
        kind, i = gfail[0]
        case = {"sw": sw, "qt": qt, "mg": mg}[kind][i]
        small, f = shrink(kind, case, prm, lambda k, j, ff: classify(k, j, dict(ff, agree=set()))[0] == "guarded-fail")
        res.violation("the real %s admits more than the limit (guarded oracle fails)" % {"sw": "counter", "qt": "quota tracker", "mg": "Manager"}[kind],
                      {"kind": "limit-exceeded", "type": kind, "case": small, "failing_cases": len(gfail),
                       "how_to_replay": "python3 tools/check.py C28 --replay <this file>"}, suffix="oracle")
    # 3. strict-oracle failures must be exactly the open known findings, failing as the model predicts
    known = {e["signature"]: e for e in vlib.known_for("C28")}
    for sig, where in sorted(sigs.items()):
        if sig in known:
            res.known_finding("%s [%s; %d case(s) this run, implementation fails exactly as the model predicts]" % (WHAT[sig], sig, len(where)))
        else:
            kind, i = where[0]
            case = {"sw": sw, "qt": qt, "mg": mg}[kind][i]
            small, f = shrink(kind, case, prm, lambda k, j, ff, sig=sig: classify(k, j, ff) == ("ok", sig))
            res.violation("property fails on the real code and is not a listed finding: " + WHAT[sig],
                          {"kind": "strict-oracle", "signature": sig, "type": kind, "case": small, "failing_cases": len(where),
                           "how_to_replay": "python3 tools/check.py C28 --replay <this file>"}, suffix="strict")
    # 4. proof obligations
    if failed:
        found = bool(disagree or gfail or res.violations)
        if not found:
            res.violation("proof obligation(s) no longer check: " + "; ".join(r for _, r in failed),
                          {"kind": "obligation-failed", "theorems": [t for t, _ in failed], "detail": [r for _, r in failed],
                           "params": prm}, no_input=True, suffix="obligation")
    if tier == "thorough" and hasattr(vlib, "coqchk_stage"):
        try:
            vlib.coqchk_stage(res, MODULES)
        except Exception as e:        # coqchk is an extra, never the verdict
            res.notes.append("coqchk: %s" % e)


def replay(res, path):
    obj = json.load(open(path))
    c = obj.get("case")
    if not c:
        print("replay file names no concrete case:", obj.get("summary"))
        return 1
    prm = translate_params()
    kind = obj.get("type", "mg")
    if c.get("first"):
        f = {k: c["first"][k] for k in ("trials", "g", "lim", "t")}
        run_impl([], [], [], "replay", prm, first=[f])
        cases = first_cases(f)
        fm = evaluate([], [], cases, prm, "Replay")[2]
        print("first-request trials:", {k: f[k] for k in ("trials", "g", "lim", "procs", "max_ra", "max_qa", "min_ra", "min_qa", "exceed", "worst")})
        bad = [i for i in range(len(cases)) if classify("mg", i, fm)[0] in ("disagree", "guarded-fail")]
        print("verdict:", "limit exceeded / disagreement" if bad or f["exceed"] else "ok")
        return 1 if bad or f["exceed"] else 0
    c = strip(c)
    if kind == "mg":
        c.pop("tok", None)
    sw, qt, mgr = ([c] if kind == "sw" else []), ([c] if kind == "qt" else []), ([c] if kind == "mg" else [])
    run_impl(sw, qt, mgr, "replay", prm)
    mg = [p for m in mgr for p in project(m)]
    fs = evaluate(sw, qt, mg, prm, "Replay")
    cases = {"sw": sw, "qt": qt, "mg": mg}[kind]
    f = fs[{"sw": 0, "qt": 1, "mg": 2}[kind]]
    rc = 0
    for i, cc in enumerate(cases):
        v, sig = classify(kind, i, f)
        print("case %d: verdict=%s strict-oracle-signature=%s" % (i, v, sig))
        if kind == "mg":
            for it in cc["items"]:
                print("   ", it["k"], it.get("t", ""), it.get("p", ""), "->", it.get("o"), "quota raw", it.get("raw"))
        else:
            print("    observed:", cc["obs"])
        if v in ("disagree", "guarded-fail") or sig:
            rc = 1
    return rc
