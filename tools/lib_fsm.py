"""Shared machinery of the Fsm area (C22, C23): command universe and generators, JSON encoding
of commands for the real ClusterFSM, Coq printing of commands / dumps / cases, the harness
run, the evaluation inside Coq and the reporting logic.

A command is a Python dict {"op": ..., fields}; one table drives both its JSON encoding
(what the real FSM receives) and its Coq term (what the model receives)."""
import base64
import datetime
import functools
import json
import os
import random
import time

import vlib

AREA = "Fsm"
HARNESS = {"internal/cluster/raft/zz_fsm_verif_test.go": "harness/fsm/fsm_verif_test.go"}
PKG = "./internal/cluster/raft/"
TIME_ZERO = -62135596800 * 10 ** 9
T1 = 1767225600 * 10 ** 9            # 2026-01-01T00:00:00Z
T2 = T1 + 3600 * 10 ** 9 + 123456789

JOIN_HAS_WS = False    # set by C23.py from coordinator.handleJoinRequest's NodeInfo literal
TYPES = {"add_node": 1, "remove_node": 2, "update_node": 3, "update_node_state": 4, "promote": 5, "demote": 6,
         "register_file": 7, "delete_file": 8, "assign_compactor": 9, "batch": 10, "update_file": 11,
         "create_token": 12, "update_token": 13, "revoke_token": 14, "delete_token": 15, "rotate_token": 16,
         "create_org": 17, "update_org": 18, "delete_org": 19, "create_team": 20, "update_team": 21, "delete_team": 22,
         "create_role": 23, "update_role": 24, "delete_role": 25, "create_mperm": 26, "delete_mperm": 27,
         "add_member": 28, "remove_member": 29}
LIMITS = {"max_path": 4096, "max_hash": 512, "max_prefix": 256, "max_name": 256, "max_pattern": 256, "max_desc": 1024}

# --------------------------------------------------------------------------------------
# Coq printers
# --------------------------------------------------------------------------------------


def cstr_raw(b):
    if len(b) > 40 and len(set(b)) == 1 and 32 < b[0] < 127 and b[0] != 34:
        return '(srep %d "%s")' % (len(b), chr(b[0]))
    if all(32 <= x < 127 for x in b):
        return '"' + b.decode().replace('"', '""') + '"'
    return "(sb [" + ";".join(str(x) for x in b) + "]%N)"


STRTAB = {}


def cstr(s):
    """Strings are interned: the case file defines each distinct string once (type-checking
    string literals is what dominates coqc's time on large case files)."""
    b = s.encode("utf-8") if isinstance(s, str) else bytes(s)
    if b == b"":
        return '""'
    if b not in STRTAB:
        STRTAB[b] = "s%d" % len(STRTAB)
    return STRTAB[b]


def strtab_defs():
    return "".join("Definition %s : string := %s.\n" % (v, cstr_raw(k)) for k, v in STRTAB.items())


def cz(n):
    return "(%d)" % n if n < 0 else "%d" % n


def cb(b):
    return "true" if b else "false"


def clist(items):
    return "[" + "; ".join(items) + "]"


def KS(s):
    return ("S", s.encode("utf-8") if isinstance(s, str) else s)


def KZ(n):
    return ("Z", n)


def KP(a, b):
    return ("P", a, b)


def ckey(k):
    if k[0] == "Z":
        return "(KZ %s)" % cz(k[1])
    if k[0] == "S":
        return "(KS %s)" % cstr(k[1])
    return "(KP %s %s)" % (ckey(k[1]), ckey(k[2]))


_RANK = {"Z": 0, "S": 1, "P": 2}


def kcmp(a, b):
    """the model's key order (Key.kcmp): KZ < KS < KP, numbers numerically, strings bytewise"""
    if a[0] != b[0]:
        return -1 if _RANK[a[0]] < _RANK[b[0]] else 1
    if a[0] == "P":
        c = kcmp(a[1], b[1])
        return c if c else kcmp(a[2], b[2])
    return (a[1] > b[1]) - (a[1] < b[1])


def csmap(pairs, cval):
    """pairs: [(key, value)] -> Coq smap literal in key order (duplicates kept: they make the comparison fail)"""
    pairs = sorted(pairs, key=functools.cmp_to_key(lambda x, y: kcmp(x[0], y[0])))
    return clist(["(%s, %s)" % (ckey(k), cval(v)) for k, v in pairs])


def c_node(n):
    return "(mkNode %s %s %s %s %s %s %s %s %s %s)" % (
        cstr(n["id"]), cstr(n["name"]), cstr(n["role"]), cstr(n["cluster"]), cstr(n["addr"]), cstr(n["api"]),
        cstr(n["state"]), cstr(n["version"]), cstr(n["ws"]), cz(n["cores"]))


def c_file(f):
    return "(mkFile %s %s %s %s %s %s %s %s %s %s)" % (
        cstr(f["path"]), cstr(f["sha"]), cz(f["size"]), cstr(f["db"]), cstr(f["meas"]), cz(f["ptime"]),
        cstr(f["origin"]), cstr(f["tier"]), cz(f["created"]), cz(f["lsn"]))


def c_token(t):
    return "(mkTok %s %s %s %s %s %s %s %s %s %s)" % (
        cz(t["id"]), cstr(t["name"]), cstr(t["desc"]), cstr(t["perms"]), cstr(t["hash"]), cstr(t["prefix"]),
        cz(t["created"]), cz(t["expires"]), cb(t["enabled"]), cz(t["lsn"]))


def c_org(o):
    return "(mkOrg %s %s %s %s %s %s %s)" % (cz(o["id"]), cstr(o["name"]), cstr(o["desc"]), cz(o["created"]),
                                              cz(o["updated"]), cb(o["enabled"]), cz(o["lsn"]))


def c_team(t):
    return "(mkTeam %s %s %s %s %s %s %s %s)" % (cz(t["id"]), cz(t["org"]), cstr(t["name"]), cstr(t["desc"]),
                                                 cz(t["created"]), cz(t["updated"]), cb(t["enabled"]), cz(t["lsn"]))


def c_role(r):
    return "(mkRole %s %s %s %s %s %s)" % (cz(r["id"]), cz(r["team"]), cstr(r["pat"]), cstr(r["perms"]), cz(r["created"]), cz(r["lsn"]))


def c_mperm(r):
    return "(mkMP %s %s %s %s %s %s)" % (cz(r["id"]), cz(r["role"]), cstr(r["pat"]), cstr(r["perms"]), cz(r["created"]), cz(r["lsn"]))


def c_mem(m):
    return "(mkMem %s %s %s %s %s)" % (cz(m["id"]), cz(m["token"]), cz(m["team"]), cz(m["created"]), cz(m["lsn"]))


# --------------------------------------------------------------------------------------
# entries: defaults, JSON encoding
# --------------------------------------------------------------------------------------

def node(id, role="writer", ws="", state="healthy", name=None, cores=4, **kw):
    d = {"id": id, "name": name if name is not None else "n-" + id, "role": role, "cluster": "c1", "addr": "10.0.0.1:7000",
         "api": "10.0.0.1:8000", "state": state, "version": "v1", "ws": ws, "cores": cores}
    d.update(kw)
    return d


ZERO_NODE = {"id": "", "name": "", "role": "", "cluster": "", "addr": "", "api": "", "state": "", "version": "", "ws": "", "cores": 0}
ZERO_FILE = {"path": "", "sha": "", "size": 0, "db": "", "meas": "", "ptime": TIME_ZERO, "origin": "", "tier": "", "created": TIME_ZERO, "lsn": 0}
ZERO_TOKEN = {"id": 0, "name": "", "desc": "", "perms": "", "hash": "", "prefix": "", "created": 0, "expires": 0, "enabled": False, "lsn": 0}
ZERO_ORG = {"id": 0, "name": "", "desc": "", "created": 0, "updated": 0, "enabled": False, "lsn": 0}
ZERO_TEAM = {"id": 0, "org": 0, "name": "", "desc": "", "created": 0, "updated": 0, "enabled": False, "lsn": 0}
ZERO_ROLE = {"id": 0, "team": 0, "pat": "", "perms": "", "created": 0, "lsn": 0}
ZERO_MPERM = {"id": 0, "role": 0, "pat": "", "perms": "", "created": 0, "lsn": 0}
ZERO_MEM = {"id": 0, "token": 0, "team": 0, "created": 0, "lsn": 0}


def mk(zero, **kw):
    d = dict(zero)
    d.update(kw)
    return d


def rfc3339(ns):
    sec, nsec = divmod(ns, 10 ** 9)
    dt = datetime.datetime(1970, 1, 1) + datetime.timedelta(seconds=sec)
    s = "%04d-%02d-%02dT%02d:%02d:%02d" % (dt.year, dt.month, dt.day, dt.hour, dt.minute, dt.second)
    if nsec:
        s += (".%09d" % nsec).rstrip("0")
    return s + "Z"


def j_node(n):
    return {"id": n["id"], "name": n["name"], "role": n["role"], "cluster_name": n["cluster"], "address": n["addr"],
            "api_address": n["api"], "state": n["state"], "version": n["version"], "writer_state": n["ws"], "core_count": n["cores"]}


def j_file(f):
    return {"path": f["path"], "sha256": f["sha"], "size_bytes": f["size"], "database": f["db"], "measurement": f["meas"],
            "partition_time": rfc3339(f["ptime"]), "origin_node_id": f["origin"], "tier": f["tier"],
            "created_at": rfc3339(f["created"]), "lsn": f["lsn"]}


def j_token(t):
    return {"id": t["id"], "name": t["name"], "description": t["desc"], "permissions": t["perms"], "token_hash": t["hash"],
            "token_prefix": t["prefix"], "created_at_unix_nano": t["created"], "expires_at_unix_nano": t["expires"],
            "enabled": t["enabled"], "lsn": t["lsn"]}


def j_org(o):
    return {"id": o["id"], "name": o["name"], "description": o["desc"], "created_at_unix_nano": o["created"],
            "updated_at_unix_nano": o["updated"], "enabled": o["enabled"], "lsn": o["lsn"]}


def j_team(t):
    return {"id": t["id"], "organization_id": t["org"], "name": t["name"], "description": t["desc"],
            "created_at_unix_nano": t["created"], "updated_at_unix_nano": t["updated"], "enabled": t["enabled"], "lsn": t["lsn"]}


def j_role(r):
    return {"id": r["id"], "team_id": r["team"], "database_pattern": r["pat"], "permissions": r["perms"],
            "created_at_unix_nano": r["created"], "lsn": r["lsn"]}


def j_mperm(r):
    return {"id": r["id"], "role_id": r["role"], "measurement_pattern": r["pat"], "permissions": r["perms"],
            "created_at_unix_nano": r["created"], "lsn": r["lsn"]}


def j_mem(m):
    return {"id": m["id"], "token_id": m["token"], "team_id": m["team"], "created_at_unix_nano": m["created"], "lsn": m["lsn"]}


# --------------------------------------------------------------------------------------
# commands: op -> (json payload, coq term)
# --------------------------------------------------------------------------------------

def b64(b):
    return base64.b64encode(b).decode()


def bop_json(o):
    if o["op"] == "register":
        return {"type": TYPES["register_file"], "payload": b64(json.dumps({"file": j_file(o["file"])}).encode())}
    if o["op"] == "update":
        return {"type": TYPES["update_file"], "payload": b64(json.dumps({"file": j_file(o["file"])}).encode())}
    if o["op"] == "delete":
        return {"type": TYPES["delete_file"], "payload": b64(json.dumps({"path": o["path"], "reason": o["reason"]}).encode())}
    if o["op"] == "bad":
        return {"type": o["type"], "payload": b64(o["raw"].encode())}
    raise ValueError(o)


def bop_coq(o):
    if o["op"] == "register":
        return "BRegister " + c_file(o["file"])
    if o["op"] == "update":
        return "BUpdate " + c_file(o["file"])
    if o["op"] == "delete":
        return "BDelete %s %s" % (cstr(o["path"]), cstr(o["reason"]))
    return "BBad"


def cmd_json(c):
    """-> (type number, payload JSON object)"""
    op = c["op"]
    t = TYPES[op]
    if op in ("add_node", "update_node"):
        return t, {"node": j_node(c["node"])}
    if op == "remove_node":
        return t, {"node_id": c["id"]}
    if op == "update_node_state":
        return t, {"node_id": c["id"], "new_state": c["state"]}
    if op == "promote":
        return t, {"node_id": c["id"], "old_primary_id": c["old"]}
    if op == "demote":
        return t, {"node_id": c["id"]}
    if op in ("register_file", "update_file"):
        return t, {"file": j_file(c["file"])}
    if op == "delete_file":
        return t, {"path": c["path"], "reason": c["reason"]}
    if op == "assign_compactor":
        return t, {"node_id": c["id"], "old_compactor_id": c["old"]}
    if op == "batch":
        return t, {"ops": [bop_json(o) for o in c["ops"]]}
    if op == "create_token":
        return t, {"token": j_token(c["token"])}
    if op == "update_token":
        return t, {"id": c["id"], "name": c["name"], "description": c["desc"], "permissions": c["perms"],
                   "expires_at_unix_nano": c["expires"], "changed_fields": c["changed"]}
    if op in ("revoke_token", "delete_token", "delete_org", "delete_team", "delete_role", "delete_mperm"):
        return t, {"id": c["id"]}
    if op == "rotate_token":
        return t, {"id": c["id"], "new_hash": c["hash"], "new_prefix": c["prefix"]}
    if op == "create_org":
        return t, {"organization": j_org(c["org"])}
    if op in ("update_org", "update_team"):
        return t, {"id": c["id"], "name": c["name"], "description": c["desc"], "enabled": c["enabled"],
                   "updated_at_unix_nano": c["updated"], "changed_fields": c["changed"]}
    if op == "create_team":
        return t, {"team": j_team(c["team"])}
    if op == "create_role":
        return t, {"role": j_role(c["role"])}
    if op == "update_role":
        return t, {"id": c["id"], "database_pattern": c["pat"], "permissions": c["perms"], "changed_fields": c["changed"]}
    if op == "create_mperm":
        return t, {"measurement_permission": j_mperm(c["mperm"])}
    if op == "add_member":
        return t, {"membership": j_mem(c["mem"])}
    if op == "remove_member":
        return t, {"token_id": c["token"], "team_id": c["team"]}
    raise ValueError(op)


def cmd_coq(c):
    op = c["op"]
    sl = lambda l: clist([cstr(x) for x in l])
    if op == "add_node":
        return "CAddNode " + c_node(c["node"])
    if op == "update_node":
        return "CUpdateNode " + c_node(c["node"])
    if op == "remove_node":
        return "CRemoveNode " + cstr(c["id"])
    if op == "update_node_state":
        return "CUpdateNodeState %s %s" % (cstr(c["id"]), cstr(c["state"]))
    if op == "promote":
        return "CPromote %s %s" % (cstr(c["id"]), cstr(c["old"]))
    if op == "demote":
        return "CDemote " + cstr(c["id"])
    if op == "register_file":
        return "CRegisterFile " + c_file(c["file"])
    if op == "update_file":
        return "CUpdateFile " + c_file(c["file"])
    if op == "delete_file":
        return "CDeleteFile %s %s" % (cstr(c["path"]), cstr(c["reason"]))
    if op == "assign_compactor":
        return "CAssignCompactor %s %s" % (cstr(c["id"]), cstr(c["old"]))
    if op == "batch":
        return "CBatch " + clist([bop_coq(o) for o in c["ops"]])
    if op == "create_token":
        return "CCreateToken " + c_token(c["token"])
    if op == "update_token":
        return "CUpdateToken %s %s %s %s %s %s" % (cz(c["id"]), cstr(c["name"]), cstr(c["desc"]), cstr(c["perms"]), cz(c["expires"]), sl(c["changed"]))
    if op == "revoke_token":
        return "CRevokeToken " + cz(c["id"])
    if op == "delete_token":
        return "CDeleteToken " + cz(c["id"])
    if op == "rotate_token":
        return "CRotateToken %s %s %s" % (cz(c["id"]), cstr(c["hash"]), cstr(c["prefix"]))
    if op == "create_org":
        return "CCreateOrg " + c_org(c["org"])
    if op == "update_org":
        return "CUpdateOrg %s %s %s %s %s %s" % (cz(c["id"]), cstr(c["name"]), cstr(c["desc"]), cb(c["enabled"]), cz(c["updated"]), sl(c["changed"]))
    if op == "delete_org":
        return "CDeleteOrg " + cz(c["id"])
    if op == "create_team":
        return "CCreateTeam " + c_team(c["team"])
    if op == "update_team":
        return "CUpdateTeam %s %s %s %s %s %s" % (cz(c["id"]), cstr(c["name"]), cstr(c["desc"]), cb(c["enabled"]), cz(c["updated"]), sl(c["changed"]))
    if op == "delete_team":
        return "CDeleteTeam " + cz(c["id"])
    if op == "create_role":
        return "CCreateRole " + c_role(c["role"])
    if op == "update_role":
        return "CUpdateRole %s %s %s %s" % (cz(c["id"]), cstr(c["pat"]), cstr(c["perms"]), sl(c["changed"]))
    if op == "delete_role":
        return "CDeleteRole " + cz(c["id"])
    if op == "create_mperm":
        return "CCreateMPerm " + c_mperm(c["mperm"])
    if op == "delete_mperm":
        return "CDeleteMPerm " + cz(c["id"])
    if op == "add_member":
        return "CAddMember " + c_mem(c["mem"])
    if op == "remove_member":
        return "CRemoveMember %s %s" % (cz(c["token"]), cz(c["team"]))
    if op == "bad":
        return "CBad"
    raise ValueError(op)


def null_cmd(op):
    """the command the FSM sees when the payload is the JSON value null (all fields zero)"""
    z = {"add_node": {"node": dict(ZERO_NODE)}, "update_node": {"node": dict(ZERO_NODE)}, "remove_node": {"id": ""},
         "update_node_state": {"id": "", "state": ""}, "promote": {"id": "", "old": ""}, "demote": {"id": ""},
         "register_file": {"file": dict(ZERO_FILE)}, "update_file": {"file": dict(ZERO_FILE)}, "delete_file": {"path": "", "reason": ""},
         "assign_compactor": {"id": "", "old": ""}, "batch": {"ops": []}, "create_token": {"token": dict(ZERO_TOKEN)},
         "update_token": {"id": 0, "name": "", "desc": "", "perms": "", "expires": 0, "changed": []},
         "revoke_token": {"id": 0}, "delete_token": {"id": 0}, "rotate_token": {"id": 0, "hash": "", "prefix": ""},
         "create_org": {"org": dict(ZERO_ORG)}, "update_org": {"id": 0, "name": "", "desc": "", "enabled": False, "updated": 0, "changed": []},
         "delete_org": {"id": 0}, "create_team": {"team": dict(ZERO_TEAM)},
         "update_team": {"id": 0, "name": "", "desc": "", "enabled": False, "updated": 0, "changed": []}, "delete_team": {"id": 0},
         "create_role": {"role": dict(ZERO_ROLE)}, "update_role": {"id": 0, "pat": "", "perms": "", "changed": []}, "delete_role": {"id": 0},
         "create_mperm": {"mperm": dict(ZERO_MPERM)}, "delete_mperm": {"id": 0}, "add_member": {"mem": dict(ZERO_MEM)},
         "remove_member": {"token": 0, "team": 0}}[op]
    d = {"op": op, "null_payload": True}
    d.update(z)
    return d


def step_json(st):
    """model-level step -> harness step"""
    if st["k"] == "snap":
        return {"k": "snap"}
    if st["k"] == "restore":
        return {"k": "restore", "snapshot": snap_json(st["snap"])}
    c = st["cmd"]
    if c["op"] == "bad":
        if "data" in c:
            return {"k": "raw", "idx": st["idx"], "data_b64": b64(c["data"].encode())}
        return {"k": "cmd", "idx": st["idx"], "type": c["type"], "pay_b64": b64(c["raw"].encode())}
    if c.get("null_payload"):
        return {"k": "cmd", "idx": st["idx"], "type": TYPES[c["op"]], "payload": None, "pay_b64": b64(b"null")}
    t, p = cmd_json(c)
    return {"k": "cmd", "idx": st["idx"], "type": t, "payload": p}


def step_coq(st):
    if st["k"] == "snap":
        return "SSnap"
    if st["k"] == "restore":
        return "SRestore " + snap_coq(st["snap"])
    return "SCmd %s (%s)" % (cz(st["idx"]), cmd_coq(st["cmd"]))


# crafted snapshots: {"nodes": [(key, node)], "primary":, "compactor":, "files": [(key, file)], "tokens": [(key,int -> token)], ...}
def snap_json(sn):
    return {"nodes": {k: j_node(v) for k, v in sn["nodes"]}, "primary_writer_id": sn["primary"], "active_compactor_id": sn["compactor"],
            "files": {k: j_file(v) for k, v in sn["files"]}, "tokens": {str(k): j_token(v) for k, v in sn["tokens"]},
            "organizations": {str(k): j_org(v) for k, v in sn["orgs"]}, "teams": {str(k): j_team(v) for k, v in sn["teams"]},
            "roles": {str(k): j_role(v) for k, v in sn["roles"]},
            "measurement_permissions": {str(k): j_mperm(v) for k, v in sn["mperms"]},
            "token_memberships": {str(k): j_mem(v) for k, v in sn["mems"]}}


def snap_coq(sn):
    return "(mkSnap %s %s %s %s %s %s %s %s %s %s)" % (
        csmap([(KS(k), v) for k, v in sn["nodes"]], c_node), cstr(sn["primary"]), cstr(sn["compactor"]),
        csmap([(KS(k), v) for k, v in sn["files"]], c_file), csmap([(KZ(k), v) for k, v in sn["tokens"]], c_token),
        csmap([(KZ(k), v) for k, v in sn["orgs"]], c_org), csmap([(KZ(k), v) for k, v in sn["teams"]], c_team),
        csmap([(KZ(k), v) for k, v in sn["roles"]], c_role), csmap([(KZ(k), v) for k, v in sn["mperms"]], c_mperm),
        csmap([(KZ(k), v) for k, v in sn["mems"]], c_mem))


# --------------------------------------------------------------------------------------
# dumps of the real FSM -> Coq state terms
# --------------------------------------------------------------------------------------

def dump_coq(d):
    ns = lambda s, n: s * 10 ** 9 + n
    nodes = [(KS(r[0]), dict(zip(["id", "name", "role", "cluster", "addr", "api", "state", "version", "ws", "cores"], r[1:]))) for r in d["nodes"]]
    files = [(KS(r[0]), {"path": r[1], "sha": r[2], "size": r[3], "db": r[4], "meas": r[5], "ptime": ns(r[6], r[7]), "origin": r[8],
                         "tier": r[9], "created": ns(r[10], r[11]), "lsn": r[12]}) for r in d["files"]]
    toks = [(KZ(r[0]), dict(zip(["id", "name", "desc", "perms", "hash", "prefix", "created", "expires", "enabled", "lsn"], r[1:]))) for r in d["tokens"]]
    orgs = [(KZ(r[0]), dict(zip(["id", "name", "desc", "created", "updated", "enabled", "lsn"], r[1:]))) for r in d["orgs"]]
    teams = [(KZ(r[0]), dict(zip(["id", "org", "name", "desc", "created", "updated", "enabled", "lsn"], r[1:]))) for r in d["teams"]]
    roles = [(KZ(r[0]), dict(zip(["id", "team", "pat", "perms", "created", "lsn"], r[1:]))) for r in d["roles"]]
    mps = [(KZ(r[0]), dict(zip(["id", "role", "pat", "perms", "created", "lsn"], r[1:]))) for r in d["mperms"]]
    mems = [(KZ(r[0]), dict(zip(["id", "token", "team", "created", "lsn"], r[1:]))) for r in d["mems"]]
    tt = lambda _: "tt"
    kz = lambda v: "(KZ %s)" % cz(v)
    return "(mkState %s %s %s %s %s %s %s %s %s %s %s %s %s %s %s %s %s %s %s %s)" % (
        csmap(nodes, c_node), cstr(d["primary"]), cstr(d["compactor"]),
        csmap(files, c_file), csmap([(KP(KS(r[0]), KS(r[1])), None) for r in d["files_by_db"]], tt),
        csmap(toks, c_token), csmap([(KP(KS(r[0]), KZ(r[1])), None) for r in d["tok_by_prefix"]], tt),
        csmap([(KS(r[0]), r[1]) for r in d["tok_by_name"]], kz),
        csmap(orgs, c_org), csmap([(KS(r[0]), r[1]) for r in d["org_by_name"]], kz),
        csmap(teams, c_team), csmap([(KP(KZ(r[0]), KS(r[1])), r[2]) for r in d["teams_by_org"]], kz),
        csmap(roles, c_role), csmap([(KP(KZ(r[0]), KZ(r[1])), None) for r in d["roles_by_team"]], tt),
        csmap(mps, c_mperm), csmap([(KP(KZ(r[0]), KZ(r[1])), None) for r in d["mperms_by_role"]], tt),
        csmap(mems, c_mem), csmap([(KP(KZ(r[0]), KZ(r[1])), r[2]) for r in d["mem_by_pair"]], kz),
        csmap([(KP(KZ(r[0]), KZ(r[1])), None) for r in d["mem_by_token"]], tt),
        csmap([(KP(KZ(r[0]), KZ(r[1])), None) for r in d["mem_by_team"]], tt))


def dump_clean(d):
    return not d["empty_inner"] and not d["nil_entries"]


def case_coq(case, obs):
    dumps = sorted((int(k), v) for k, v in obs["dumps"].items())
    sdumps = sorted((int(k), v) for k, v in obs["snap_dumps"].items())
    clean = all(dump_clean(v) for _, v in dumps) and all(dump_clean(v) for _, v in sdumps) and not obs.get("panic")
    return "(mkCase %s %s %s %s %s %s %s %s %s)" % (
        clist([step_coq(s) for s in case["steps"]]), clist([cb(b) for b in obs["res"]]),
        clist(["(%d%%nat, %s)" % (i, dump_coq(v)) for i, v in dumps]), cb(clean), cb(bool(case.get("prefix"))),
        clist([cb(b) for b in (obs["snap_eq"] or [])]),
        clist(["(%d%%nat, %s)" % (i, dump_coq(v)) for i, v in sdumps]),
        clist([cb(b) for b in (obs["replay_eq"] or [])]), clist([cb(b) for b in (obs.get("late_eq") or [])]))


# --------------------------------------------------------------------------------------
# running
# --------------------------------------------------------------------------------------

def run_impl(pid, cases, tag):
    hc = [{"id": i, "steps": [step_json(s) for s in c["steps"]], "dump_at": c.get("dump_at", []), "prefix": bool(c.get("prefix"))}
          for i, c in enumerate(cases)]
    out = vlib.run_go_harness(pid, PKG, "^TestVerifFSM$", HARNESS, hc, tag=tag)
    consts, outs = out["consts"], out["outs"]
    for k, v in list(TYPES.items()) + list(LIMITS.items()):
        if consts.get(k) != v:
            raise vlib.TieBroken("constant %s is %r in the source, the model was written for %r" % (k, consts.get(k), v))
    if len(outs) != len(cases):
        raise vlib.TieBroken("harness returned %d results for %d cases" % (len(outs), len(cases)))
    for c, o in zip(cases, outs):
        if o.get("panic"):
            raise vlib.TieBroken("real ClusterFSM panicked on case %s: %s" % (json.dumps(c.get("name", c["steps"]))[:300], o["panic"]))
    return outs


PRED_BITS = [("agree", 1), ("o22", 2), ("o23", 4), ("g_file", 8), ("g_token", 16), ("g_add", 32), ("g_remove", 64), ("g_promote", 128)]


def coq_header(cfg):
    return ("From Coq Require Import List ZArith NArith Bool String.\nFrom Arc Require Import Fsm.Key Fsm.Model Fsm.Tie.\n"
            "Import ListNotations.\nOpen Scope string_scope.\nOpen Scope Z_scope.\n"
            "Definition the_cfg : cfg := mkCfg %s %s %s %s %s.\n" % tuple(cb(cfg[k]) for k in ("promote", "tokname", "filedb", "remove", "addws")))


def eval_cases(pid, cfg, cases, outs, name="Cases", chunk=300):
    """Evaluate every predicate of Tie.v on every case inside coqc (one vm_compute per chunk).
    Returns {label: [indices where the predicate is FALSE]}."""
    import re
    STRTAB.clear()
    terms = [case_coq(c, o) for c, o in zip(cases, outs)]
    header = coq_header(cfg) + strtab_defs()
    res = {k: [] for k, _ in PRED_BITS}
    for off in range(0, len(terms), chunk):
        part = terms[off:off + chunk]
        src = header + "Definition verif_cases : list ccase := [\n%s].\n" % ";\n".join(part)
        src += "Definition verif_flags := Eval vm_compute in map (case_flags the_cfg) verif_cases.\nPrint verif_flags.\n"
        rc, out = vlib.coq_eval(pid, "%s_%d" % (name, off), src)
        m = re.search(r"verif_flags\s*=\s*(\[[^\]]*\]|nil)", out)
        if rc != 0 or not m:
            raise vlib.InfraError("case evaluation failed: " + out[-2500:])
        vals = [int(x) for x in re.findall(r"\d+", m.group(1).replace("%N", ""))]
        if len(vals) != len(part):
            raise vlib.InfraError("case evaluation returned %d flags for %d cases" % (len(vals), len(part)))
        for i, v in enumerate(vals):
            for k, b in PRED_BITS:
                if not v & b:
                    res[k].append(off + i)
    return res


# --------------------------------------------------------------------------------------
# witnesses of the known defects (also used to determine which code variant is present)
# --------------------------------------------------------------------------------------

def cmdstep(idx, **c):
    return {"k": "cmd", "idx": idx, "cmd": c}


def tok(name, prefix="p1", perms="read", **kw):
    return mk(ZERO_TOKEN, name=name, hash="h-" + name, prefix=prefix, perms=perms, created=5, **kw)


def fil(path, db, created=T1, **kw):
    return mk(ZERO_FILE, path=path, db=db, meas="cpu", sha="ab12", size=10, ptime=T1, origin="a", tier="hot", created=created, **kw)


def witnesses():
    W = []
    W.append({"name": "w_tokname_empty", "sig": "update-token-invalid-name", "flag": "tokname", "steps": [
        cmdstep(1, op="create_token", token=tok("t1")),
        cmdstep(2, op="update_token", id=1, name="", desc="", perms="", expires=0, changed=["name"])]})
    W.append({"name": "w_tokname_long", "sig": "update-token-invalid-name", "flag": "tokname", "steps": [
        cmdstep(1, op="create_token", token=tok("t1")),
        cmdstep(2, op="update_token", id=1, name="x" * 257, desc="", perms="", expires=0, changed=["name"])]})
    W.append({"name": "w_filedb", "sig": "update-file-empty-database", "flag": "filedb", "steps": [
        cmdstep(1, op="register_file", file=fil("db1/cpu/f1.parquet", "db1")),
        cmdstep(2, op="update_file", file=fil("db1/cpu/f1.parquet", ""))]})
    W.append({"name": "w_promote_ghost", "sig": "promote-unknown-node", "flag": "promote", "steps": [
        cmdstep(1, op="add_node", node=node("a")), cmdstep(2, op="promote", id="a", old=""),
        cmdstep(3, op="promote", id="ghost", old="a")]})
    W.append({"name": "w_two_primaries", "sig": "add-node-overwrites-writer-state", "flag": "addws", "steps": [
        cmdstep(1, op="add_node", node=node("a")), cmdstep(2, op="add_node", node=node("b")),
        cmdstep(3, op="promote", id="a", old=""), cmdstep(4, op="add_node", node=node("b", ws="primary"))]})
    W.append({"name": "w_rejoin_primary", "sig": "add-node-overwrites-writer-state", "flag": "addws", "steps": [
        cmdstep(1, op="add_node", node=node("a")), cmdstep(2, op="promote", id="a", old=""),
        cmdstep(3, op="add_node", node=node("a"))]})
    W.append({"name": "w_remove_primary", "sig": "remove-primary-node", "flag": "remove", "steps": [
        cmdstep(1, op="add_node", node=node("a")), cmdstep(2, op="promote", id="a", old=""),
        cmdstep(3, op="remove_node", id="a")]})
    for w in W:
        w["prefix"] = True
        w["dump_at"] = list(range(len(w["steps"])))
        w["witness"] = True
    return W


def detect_cfg(ws, outs):
    """Which variant of each repaired function does the source tree implement?  Decided from the
    witness runs on the real code; anything that is neither variant breaks the tie."""
    by = {w["name"]: o for w, o in zip(ws, outs)}
    last = lambda o: o["dumps"][str(len(o["res"]) - 1)]
    cfg = {}
    o = by["w_promote_ghost"]
    pr = last(o)["primary"]
    if pr == "ghost" and o["res"][2] is False:
        cfg["promote"] = False
    elif pr == "a" and o["res"][2] is False:
        cfg["promote"] = True
    else:
        raise vlib.TieBroken("applyPromoteWriter on an unknown node behaves like neither modelled variant (primary=%r res=%r)" % (pr, o["res"]))
    o = by["w_tokname_empty"]
    nm = [t[2] for t in last(o)["tokens"]]
    if o["res"][1] is True and nm == [""]:
        cfg["tokname"] = False
    elif o["res"][1] is False and nm == ["t1"]:
        cfg["tokname"] = True
    else:
        raise vlib.TieBroken("applyUpdateToken with an empty name behaves like neither modelled variant (names=%r res=%r)" % (nm, o["res"]))
    o = by["w_filedb"]
    ix = last(o)["files_by_db"]
    if ix == []:
        cfg["filedb"] = False
    elif ix == [["", "db1/cpu/f1.parquet"]]:
        cfg["filedb"] = True
    else:
        raise vlib.TieBroken("applyUpdateFile with an empty database behaves like neither modelled variant (index=%r)" % ix)
    o = by["w_remove_primary"]
    pr = last(o)["primary"]
    if pr == "a":
        cfg["remove"] = False
    elif pr == "":
        cfg["remove"] = True
    else:
        raise vlib.TieBroken("applyRemoveNode of the primary behaves like neither modelled variant (primary=%r)" % pr)
    o = by["w_rejoin_primary"]
    ws_a = [n[9] for n in last(o)["nodes"] if n[0] == "a"]
    if ws_a == [""]:
        cfg["addws"] = False
    elif ws_a == ["primary"]:
        cfg["addws"] = True
    else:
        raise vlib.TieBroken("applyAddNode of an existing node behaves like neither modelled variant (writer_state=%r)" % ws_a)
    return cfg


# --------------------------------------------------------------------------------------
# generators
# --------------------------------------------------------------------------------------

NODE_IDS = ["a", "b", "c", "d"]
GOOD_PATHS = ["db1/cpu/f1.parquet", "db1/cpu/f2.parquet", "db2/mem/f1.parquet", "db1/cpu/a..b.parquet", "db1/.../x", "x" * 4096]
BAD_PATHS = ["", "/etc/passwd", "\\share\\x", "s3://bucket/x", "file:/etc/passwd", "mailto:x", "a/../b", "a\\..\\b", "db/..\\etc", "..",
             "C:\\Windows\\x", "c:/x", "C:x", "ab:c", "a\x00b", "x" * 4097, "db1/cpu/../../f"]
DBS = ["db1", "db2", ""]
TOK_NAMES = ["t1", "t2", "t3"]
PERMS_OK = ["read", "read,write", " read , admin", "", "delete", "read,\twrite ", "admin,admin"]
PERMS_BAD = ["bogus", "read,,write", "Read", "read;write", ",", "read, "]
PREFIXES = ["p1", "p2"]
NAMES = ["n1", "n2", "n3"]
PATS = ["*", "prod_*", "db1"]
FIELDS_NAMED = ["name", "description", "enabled", "bogus", "name"]


class Gen:
    """Random but structured command sequences.  `made[kind]` remembers the log indices of
    earlier create commands so that later commands mostly refer to entities that may exist."""

    def __init__(self, rng):
        self.r = rng
        self.idx = 0
        self.made = {"token": [], "org": [], "team": [], "role": [], "mperm": [], "mem": []}
        self.paths = []

    def next_idx(self):
        self.idx += self.r.choice([1, 1, 1, 2, 3])
        return self.idx

    def some_id(self, kind):
        r = self.r
        if self.made[kind] and r.random() < 0.85:
            return r.choice(self.made[kind])
        return r.choice([0, -1, 1, 2, 999, self.idx])

    def name(self, pool, bad=0.12):
        r = self.r
        if r.random() < bad:
            return r.choice(["", "x" * 257, "y" * 256])
        return r.choice(pool)

    def desc(self):
        return self.r.choice(["", "d", "some text", "z" * 1024, "z" * 1025] if self.r.random() < 0.15 else ["", "d"])

    def perms(self, bad=0.12):
        return self.r.choice(PERMS_BAD) if self.r.random() < bad else self.r.choice(PERMS_OK)

    def created(self):
        return 0 if self.r.random() < 0.07 else self.r.choice([5, 7, T1])

    # --- node family
    def node_cmd(self):
        r = self.r
        k = r.choice(["add", "add", "add", "update", "remove", "state", "promote", "promote", "promote", "demote", "compactor"])
        nid = r.choice(NODE_IDS) if r.random() < 0.9 else r.choice(["", "ghost"])
        if k in ("add", "update"):
            n = node(nid, role=r.choice(["writer", "writer", "writer", "reader", "compactor"]),
                     ws=r.choice(["", "", "", "", "standby", "primary"]), state=r.choice(["healthy", "joining"]),
                     cores=r.choice([2, 4]), name=r.choice(["n-" + nid, "renamed"]))
            return {"op": "add_node" if k == "add" else "update_node", "node": n}
        if k == "remove":
            return {"op": "remove_node", "id": nid}
        if k == "state":
            return {"op": "update_node_state", "id": nid, "state": r.choice(["healthy", "unhealthy", "dead"])}
        if k == "promote":
            # OldPrimaryID is an informational hint: empty, right, stale and unknown values all occur
            return {"op": "promote", "id": nid, "old": r.choice(["", "", "a", "b", "c", "d", "ghost"])}
        if k == "demote":
            return {"op": "demote", "id": nid}
        return {"op": "assign_compactor", "id": nid, "old": r.choice(["", "a"])}

    # --- file family
    def file_entry(self):
        r = self.r
        path = r.choice(BAD_PATHS) if r.random() < 0.15 else r.choice(GOOD_PATHS[:5] if r.random() < 0.95 else GOOD_PATHS)
        db = r.choice(DBS) if r.random() < 0.5 else (path.split("/")[0] if "/" in path else "db1")
        cr = TIME_ZERO if r.random() < 0.08 else r.choice([T1, T2, 0])
        return mk(ZERO_FILE, path=path, db=db, meas=r.choice(["cpu", "mem"]), sha=r.choice(["ab12", "cd34"]), size=r.choice([10, 20]),
                  ptime=r.choice([T1, T2, TIME_ZERO]), origin=r.choice(["a", "b"]), tier=r.choice(["hot", "cold"]), created=cr,
                  lsn=r.choice([0, 77]))

    def bop(self):
        r = self.r
        k = r.choice(["register", "register", "update", "delete", "delete", "bad"] if r.random() < 0.25 else ["register", "register", "update", "delete"])
        if k == "register":
            return {"op": "register", "file": self.file_entry()}
        if k == "update":
            return {"op": "update", "file": self.file_entry()}
        if k == "delete":
            return {"op": "delete", "path": r.choice(GOOD_PATHS[:3] + ([""] if r.random() < 0.3 else [])), "reason": r.choice(["compaction", ""])}
        return r.choice([{"op": "bad", "type": 1, "raw": "{}"}, {"op": "bad", "type": TYPES["register_file"], "raw": "{\"file\":"},
                         {"op": "bad", "type": TYPES["delete_file"], "raw": "[1]"}, {"op": "bad", "type": 0, "raw": "{}"},
                         {"op": "bad", "type": TYPES["update_file"], "raw": "{\"file\":{\"size_bytes\":\"x\"}}"}])

    def file_cmd(self):
        r = self.r
        k = r.choice(["register", "register", "register", "update", "update", "delete", "batch", "batch"])
        if k == "register":
            return {"op": "register_file", "file": self.file_entry()}
        if k == "update":
            return {"op": "update_file", "file": self.file_entry()}
        if k == "delete":
            return {"op": "delete_file", "path": r.choice(GOOD_PATHS[:3] + ["", "nope"]), "reason": r.choice(["retention", ""])}
        if k == "batch" and r.random() < 0.6:
            return {"op": "batch", "ops": self.near_valid_batch()}
        return {"op": "batch", "ops": [self.bop() for _ in range(r.choice([0, 1, 2, 2, 3, 4]))]}

    def good_file(self):
        r = self.r
        path = r.choice(GOOD_PATHS[:3])
        return mk(ZERO_FILE, path=path, db=r.choice(["db1", "db2", path.split("/")[0]]), meas="cpu", sha=r.choice(["ab12", "cd34"]),
                  size=r.choice([10, 20]), ptime=T1, origin="a", tier="hot", created=r.choice([T1, T2]))

    def near_valid_batch(self):
        """a batch whose ops are all acceptable, with (usually) exactly one unacceptable op at a random
        position: the all-or-nothing pre-validation is what keeps the earlier ops from landing"""
        r = self.r
        ops = []
        for _ in range(r.randint(1, 4)):
            k = r.choice(["register", "register", "update", "delete"])
            if k == "delete":
                ops.append({"op": "delete", "path": r.choice(GOOD_PATHS[:3]), "reason": "compaction"})
            else:
                ops.append({"op": k, "file": self.good_file()})
        if r.random() < 0.7:
            bad = r.choice([
                {"op": "register", "file": dict(self.good_file(), created=TIME_ZERO)},
                {"op": "update", "file": dict(self.good_file(), created=TIME_ZERO)},
                {"op": "register", "file": dict(self.good_file(), path=r.choice(BAD_PATHS))},
                {"op": "update", "file": dict(self.good_file(), path=r.choice(BAD_PATHS))},
                {"op": "delete", "path": "", "reason": ""},
                {"op": "bad", "type": TYPES["delete_file"], "raw": "{\"path\":5}"},
                {"op": "bad", "type": TYPES["add_node"], "raw": "{}"},
                {"op": "update", "file": dict(self.good_file(), db="")}])
            ops.insert(r.randint(0, len(ops)), bad)
        return ops

    # --- token family
    def token_cmd(self):
        r = self.r
        k = r.choice(["create", "create", "create", "update", "update", "update", "revoke", "delete", "rotate"])
        if k == "create":
            t = mk(ZERO_TOKEN, id=r.choice([0, 0, 42]), name=self.name(TOK_NAMES), desc=self.desc(), perms=self.perms(),
                   hash=r.choice(["h1", "h2", "", "h" * 512, "h" * 513] if r.random() < 0.15 else ["h1", "h2"]),
                   prefix=r.choice(PREFIXES + (["", "q" * 256, "q" * 257] if r.random() < 0.15 else [])),
                   created=self.created(), expires=r.choice([0, 0, 99]), enabled=r.choice([True, False]), lsn=r.choice([0, 3]))
            return {"op": "create_token", "token": t}
        if k == "update":
            ch = r.sample(["name", "description", "permissions", "expires_at", "bogus"], r.randint(0, 3))
            return {"op": "update_token", "id": self.some_id("token"), "name": self.name(TOK_NAMES, 0.2), "desc": self.desc(),
                    "perms": self.perms(), "expires": r.choice([0, 50]), "changed": ch}
        if k == "revoke":
            return {"op": "revoke_token", "id": self.some_id("token")}
        if k == "delete":
            return {"op": "delete_token", "id": self.some_id("token")}
        return {"op": "rotate_token", "id": self.some_id("token"),
                "hash": r.choice(["h9", "h9", "", "h" * 513]), "prefix": r.choice(PREFIXES + ["p9", "", "q" * 257])}

    # --- RBAC family
    def rbac_cmd(self):
        r = self.r
        k = r.choice(["c_org", "c_org", "u_org", "d_org", "c_team", "c_team", "c_team", "u_team", "d_team", "c_role", "c_role", "u_role",
                      "d_role", "c_mp", "c_mp", "d_mp", "add_mem", "add_mem", "add_mem", "rm_mem"])
        if k == "c_org":
            return {"op": "create_org", "org": mk(ZERO_ORG, id=r.choice([0, 9]), name=self.name(NAMES), desc=self.desc(), created=self.created(),
                                                  updated=r.choice([0, 0, 8]), enabled=r.choice([True, False]), lsn=0)}
        if k in ("u_org", "u_team"):
            ch = [r.choice(FIELDS_NAMED) for _ in range(r.randint(0, 3))]
            return {"op": "update_org" if k == "u_org" else "update_team", "id": self.some_id("org" if k == "u_org" else "team"),
                    "name": self.name(NAMES, 0.15), "desc": self.desc(), "enabled": r.choice([True, False]), "updated": r.choice([0, 11]), "changed": ch}
        if k == "d_org":
            return {"op": "delete_org", "id": self.some_id("org")}
        if k == "c_team":
            return {"op": "create_team", "team": mk(ZERO_TEAM, org=self.some_id("org"), name=self.name(NAMES), desc=self.desc(),
                                                    created=self.created(), updated=r.choice([0, 0, 8]), enabled=r.choice([True, False]))}
        if k == "d_team":
            return {"op": "delete_team", "id": self.some_id("team")}
        if k == "c_role":
            return {"op": "create_role", "role": mk(ZERO_ROLE, team=self.some_id("team"), pat=self.name(PATS), perms=self.perms(), created=self.created())}
        if k == "u_role":
            ch = [r.choice(["database_pattern", "permissions", "bogus"]) for _ in range(r.randint(0, 2))]
            return {"op": "update_role", "id": self.some_id("role"), "pat": self.name(PATS, 0.15), "perms": self.perms(), "changed": ch}
        if k == "d_role":
            return {"op": "delete_role", "id": self.some_id("role")}
        if k == "c_mp":
            return {"op": "create_mperm", "mperm": mk(ZERO_MPERM, role=self.some_id("role"), pat=self.name(PATS), perms=self.perms(), created=self.created())}
        if k == "d_mp":
            return {"op": "delete_mperm", "id": self.some_id("mperm")}
        if k == "add_mem":
            return {"op": "add_member", "mem": mk(ZERO_MEM, token=self.some_id("token"), team=self.some_id("team"), created=self.created())}
        return {"op": "remove_member", "token": self.some_id("token"), "team": self.some_id("team")}

    def bad_cmd(self):
        r = self.r
        return r.choice([
            {"op": "bad", "data": "not json at all"}, {"op": "bad", "data": ""}, {"op": "bad", "data": "{\"type\":\"x\"}"},
            {"op": "bad", "data": "{\"type\":0,\"payload\":\"e30=\"}"}, {"op": "bad", "data": "{\"type\":30,\"payload\":\"e30=\"}"},
            {"op": "bad", "data": "{\"type\":1,\"payload\":\"###\"}"}, {"op": "bad", "data": "[1,2]"},
            {"op": "bad", "type": 1, "raw": "{\"node\":"}, {"op": "bad", "type": 12, "raw": "\"str\""},
            {"op": "bad", "type": 13, "raw": "{\"id\":\"seven\"}"}, {"op": "bad", "type": 19, "raw": "{\"id\":1e30}"},
            {"op": "bad", "type": 10, "raw": "{\"ops\":5}"}, {"op": "bad", "type": 7, "raw": "{\"file\":{\"created_at\":\"yesterday\"}}"},
            {"op": "bad", "type": 200, "raw": "{}"}, {"op": "bad", "type": 28, "raw": "[]"}])

    def note_created(self, c, idx):
        kind = {"create_token": "token", "create_org": "org", "create_team": "team", "create_role": "role", "create_mperm": "mperm",
                "add_member": "mem"}.get(c["op"])
        if kind:
            self.made[kind].append(idx)

    def sequence(self, family, n):
        r = self.r
        steps = []
        fam = {"node": [self.node_cmd], "file": [self.file_cmd], "token": [self.token_cmd],
               "rbac": [self.rbac_cmd, self.rbac_cmd, self.rbac_cmd, self.token_cmd],
               "node_rbac": [self.node_cmd, self.rbac_cmd, self.rbac_cmd, self.token_cmd],
               "mixed": [self.node_cmd, self.file_cmd, self.token_cmd, self.rbac_cmd, self.rbac_cmd]}[family]
        for _ in range(n):
            x = r.random()
            if x < 0.06:
                steps.append({"k": "snap"})
                continue
            idx = self.next_idx()
            if x < 0.12:
                c = self.bad_cmd()
            elif x < 0.15:
                c = null_cmd(r.choice(list(TYPES)))
            else:
                c = r.choice(fam)()
            self.note_created(c, idx)
            steps.append({"k": "cmd", "idx": idx, "cmd": c})
        return steps


def rbac_prelude(g, r):
    """a small valid hierarchy so that cascades and uniqueness checks have something to bite on"""
    steps = []

    def add(c):
        idx = g.next_idx()
        g.note_created(c, idx)
        steps.append({"k": "cmd", "idx": idx, "cmd": c})
        return idx
    t1 = add({"op": "create_token", "token": tok("t1")})
    t2 = add({"op": "create_token", "token": tok("t2", prefix=r.choice(PREFIXES))}) if r.random() < 0.7 else t1
    o1 = add({"op": "create_org", "org": mk(ZERO_ORG, name="n1", created=5)})
    tm1 = add({"op": "create_team", "team": mk(ZERO_TEAM, org=o1, name="n1", created=5)})
    if r.random() < 0.6:
        tm2 = add({"op": "create_team", "team": mk(ZERO_TEAM, org=o1, name="n2", created=5)})
    else:
        tm2 = tm1
    ro = add({"op": "create_role", "role": mk(ZERO_ROLE, team=tm1, pat="*", perms="read", created=5)})
    if r.random() < 0.7:
        add({"op": "create_mperm", "mperm": mk(ZERO_MPERM, role=ro, pat="cpu", perms="read", created=5)})
    add({"op": "add_member", "mem": mk(ZERO_MEM, token=t1, team=tm1, created=5)})
    if r.random() < 0.6:
        add({"op": "add_member", "mem": mk(ZERO_MEM, token=t2, team=tm2, created=5)})
    return steps


def rbac_cascade_steps(g, r):
    """A hierarchy with at least two children under one parent at some level (teams under an org, roles
    under a team, measurement permissions under a role, memberships of a token / a team), then an
    individual delete of ONE child, then a cascading delete of the parent (or of an ancestor): the
    sibling must be found through the traversal index and removed as well."""
    steps = []

    def add(c):
        idx = g.next_idx()
        g.note_created(c, idx)
        steps.append({"k": "cmd", "idx": idx, "cmd": c})
        return idx
    t1 = add({"op": "create_token", "token": tok("t1")})
    t2 = add({"op": "create_token", "token": tok("t2", prefix=r.choice(PREFIXES))})
    o1 = add({"op": "create_org", "org": mk(ZERO_ORG, name="n1", created=5)})
    teams = [add({"op": "create_team", "team": mk(ZERO_TEAM, org=o1, name=nm, created=5)}) for nm in NAMES[:r.choice([1, 2, 2, 3])]]
    roles = {}
    for tm in teams[:2]:
        roles[tm] = [add({"op": "create_role", "role": mk(ZERO_ROLE, team=tm, pat=r.choice(PATS), perms="read", created=5)})
                     for _ in range(r.choice([1, 2, 2, 3]))]
    mps = {}
    for tm in list(roles)[:2]:
        for ro in roles[tm][:2]:
            mps[ro] = [add({"op": "create_mperm", "mperm": mk(ZERO_MPERM, role=ro, pat=r.choice(["cpu", "mem", "*"]), perms="read", created=5)})
                       for _ in range(r.choice([0, 2, 2, 3]))]
    mems = []
    for tk in (t1, t2):
        for tm in r.sample(teams, min(len(teams), r.choice([1, 2]))):
            mems.append((tk, tm, add({"op": "add_member", "mem": mk(ZERO_MEM, token=tk, team=tm, created=5)})))
    if r.random() < 0.25:
        steps.append({"k": "snap"})
    # leaf deletes of single children
    for _ in range(r.choice([1, 1, 2, 3])):
        k = r.choice(["mp", "mp", "mp", "role", "role", "team", "mem", "mem"])
        if k == "mp" and any(mps.values()):
            ro = r.choice([x for x in mps if mps[x]])
            add({"op": "delete_mperm", "id": mps[ro].pop(r.randrange(len(mps[ro])))})
        elif k == "role" and any(roles.values()):
            tm = r.choice([x for x in roles if roles[x]])
            add({"op": "delete_role", "id": roles[tm].pop(r.randrange(len(roles[tm])))})
        elif k == "team" and len(teams) > 1:
            add({"op": "delete_team", "id": teams.pop(r.randrange(len(teams)))})
        elif k == "mem" and mems:
            tk, tm, _ = mems.pop(r.randrange(len(mems)))
            add({"op": "remove_member", "token": tk, "team": tm})
    if r.random() < 0.25:
        steps.append({"k": "snap"})
    # cascades from a parent / an ancestor
    for _ in range(r.choice([1, 2, 2, 3])):
        k = r.choice(["role", "role", "team", "team", "org", "token"])
        if k == "role" and any(roles.values()):
            tm = r.choice([x for x in roles if roles[x]])
            add({"op": "delete_role", "id": r.choice(roles[tm])})
        elif k == "team" and teams:
            add({"op": "delete_team", "id": r.choice(teams)})
        elif k == "org":
            add({"op": "delete_org", "id": o1})
        else:
            add({"op": "delete_token", "id": r.choice([t1, t2])})
    return steps


def node_prelude(g, r):
    """two or three registered writers, usually one of them already promoted: failovers, rejoins and
    removals of the primary then start from a state in which there is something to break"""
    steps = []
    ids = r.sample(NODE_IDS, r.choice([2, 2, 3]))
    for nid in ids:
        steps.append({"k": "cmd", "idx": g.next_idx(), "cmd": {"op": "add_node", "node": node(nid, role="writer" if r.random() < 0.9 else "reader")}})
    if r.random() < 0.8:
        steps.append({"k": "cmd", "idx": g.next_idx(), "cmd": {"op": "promote", "id": ids[0], "old": r.choice(["", ids[1]])}})
    if r.random() < 0.5:
        steps.append({"k": "cmd", "idx": g.next_idx(), "cmd": {"op": "promote", "id": ids[1], "old": r.choice(["", ids[0], ids[-1], "ghost"])}})
    return steps


def gen_case(rng, family, dump_all=False):
    g = Gen(rng)
    steps = []
    if family in ("node", "node_rbac") and rng.random() < 0.6:
        steps += node_prelude(g, rng)
    if family == "rbac_cascade":
        steps += rbac_cascade_steps(g, rng)
        steps += g.sequence("rbac", rng.randint(0, 3))
        n = len(steps)
        dump_at = list(range(n)) if dump_all else sorted({n - 1, rng.randrange(n), rng.randrange(n)})
        return {"family": family, "steps": steps, "dump_at": dump_at, "prefix": True}
    if family in ("rbac", "node_rbac", "mixed") and rng.random() < 0.6:
        steps += rbac_prelude(g, rng)
    steps += g.sequence(family, rng.randint(3, 9))
    n = len(steps)
    if dump_all:
        dump_at = list(range(n))
    else:
        dump_at = {n - 1, rng.randrange(n)}
        for i, s in enumerate(steps):
            if s["k"] == "cmd" and s["cmd"]["op"] == "batch":
                dump_at.update({i, i - 1} if i else {i})
        dump_at = sorted(dump_at)
    return {"family": family, "steps": steps, "dump_at": dump_at, "prefix": True}


def crafted_snapshots(rng, n):
    """Restore of hand-made snapshots: exercises every quarantine branch of Restore (invalid path,
    invalid token, invalid / orphaned RBAC entries, key different from the entry id)."""
    cases = []
    for i in range(n):
        r = rng
        files = []
        for p in r.sample(GOOD_PATHS[:5] + BAD_PATHS[1:8], r.randint(0, 4)):
            files.append((p, fil(r.choice([p, "other"]), r.choice(DBS), created=r.choice([T1, TIME_ZERO]), lsn=r.choice([1, 2]))))
        toks = []
        for k, nm in zip(r.sample([1, 2, 3, 4], r.randint(0, 3)), r.sample(["t1", "t2", "t3", ""], 3)):
            toks.append((k, mk(ZERO_TOKEN, id=r.choice([k, k, 77]), name=nm, hash=r.choice(["h", "h", ""]), prefix=r.choice(PREFIXES + [""]),
                               perms=r.choice(PERMS_OK[:3] + PERMS_BAD[:1]), created=5, enabled=r.choice([True, False]), lsn=k)))
        orgs = [(k, mk(ZERO_ORG, id=k, name=nm, desc=r.choice(["", "z" * 1025]) if r.random() < 0.2 else "", created=5, updated=5, enabled=True, lsn=k))
                for k, nm in zip(r.sample([10, 11, 12], r.randint(0, 3)), r.sample(["n1", "n2", "", "n3"], 3))]
        teams = [(k, mk(ZERO_TEAM, id=k, org=r.choice([10, 11, 12, 0, 99]), name=nm, created=5, updated=5, enabled=True, lsn=k))
                 for k, nm in zip(r.sample([20, 21, 22], r.randint(0, 3)), ["n1", "n2", "n3"])]
        roles = [(k, mk(ZERO_ROLE, id=k, team=r.choice([20, 21, 22, 0, 99]), pat=r.choice(["*", "*", ""]), perms=r.choice(["read", "bogus", ""]), created=5, lsn=k))
                 for k in r.sample([30, 31, 32], r.randint(0, 3))]
        mps = [(k, mk(ZERO_MPERM, id=k, role=r.choice([30, 31, 32, 0, 99]), pat=r.choice(["cpu", "cpu", ""]), perms=r.choice(["read", "bogus"]), created=5, lsn=k))
               for k in r.sample([40, 41, 42], r.randint(0, 3))]
        # distinct (token, team) pairs only: the winner among duplicates depends on Go's map order
        pairs = r.sample([(a, b) for a in (1, 2, 3, 0, 99) for b in (20, 21, 22, 0, 99)], r.randint(0, 3))
        mems = [(50 + j, mk(ZERO_MEM, id=50 + j, token=a, team=b, created=5, lsn=50 + j)) for j, (a, b) in enumerate(pairs)]
        nodes = [(nid, node(nid, ws=r.choice(["", "primary", "standby"]))) for nid in r.sample(NODE_IDS, r.randint(0, 3))]
        sn = {"nodes": nodes, "primary": r.choice(["", "a", "zz"]), "compactor": r.choice(["", "b"]), "files": files, "tokens": toks,
              "orgs": orgs, "teams": teams, "roles": roles, "mperms": mps, "mems": mems}
        g = Gen(rng)
        g.idx = 100
        g.made = {"token": [k for k, _ in toks], "org": [k for k, _ in orgs], "team": [k for k, _ in teams], "role": [k for k, _ in roles],
                  "mperm": [k for k, _ in mps], "mem": [k for k, _ in mems]}
        steps = [{"k": "restore", "snap": sn}] + g.sequence("mixed", r.randint(1, 4))
        cases.append({"family": "crafted_restore", "steps": steps, "dump_at": list(range(len(steps))), "prefix": True})
    return cases


def case_key(c):
    return json.dumps(c["steps"], sort_keys=True, default=str)


def nontrivial(c, obs):
    """>= 1 rejected and >= 1 accepted command, and a snapshot experiment at an inner prefix (DESIGN.md section 6 table)"""
    cmd_res = [ok for s, ok in zip(c["steps"], obs["res"]) if s["k"] == "cmd"]
    return (True in cmd_res) and (False in cmd_res) and bool(c.get("prefix")) and len(c["steps"]) >= 3


def op_histogram(cases):
    h = {}
    for c in cases:
        for s in c["steps"]:
            k = s["cmd"]["op"] if s["k"] == "cmd" else s["k"]
            if s["k"] == "cmd" and s["cmd"].get("null_payload"):
                k = "null_payload"
            h[k] = h.get(k, 0) + 1
    return dict(sorted(h.items()))


# --------------------------------------------------------------------------------------
# the check shared by C22 / C23
# --------------------------------------------------------------------------------------

GUARD_SIG = {"g_file": "update-file-empty-database", "g_token": "update-token-invalid-name",
             "g_promote": "promote-unknown-node", "g_add": "add-node-overwrites-writer-state", "g_remove": "remove-primary-node"}
PROP_GUARDS = {"C22": ["g_file", "g_token"], "C23": ["g_promote", "g_add", "g_remove"]}
PROP_ORACLE = {"C22": "o22", "C23": "o23"}


def load_corpus(pid):
    d = os.path.join(vlib.ROOT, "corpus", pid)
    out = []
    if os.path.isdir(d):
        for fn in sorted(os.listdir(d)):
            if fn.endswith(".json"):
                c = json.load(open(os.path.join(d, fn)))
                c = c.get("case", c)
                c["corpus"] = fn
                c.setdefault("prefix", True)
                c.setdefault("dump_at", list(range(len(c["steps"]))))
                out.append(c)
    return out


def shrink_case(pid, cfg, case, keep, max_rounds=12):
    """Delta-debugging style shrinking: remove blocks of steps (half, quarter, ... single steps) while
    keep(ev, j) holds for the candidate (ev = eval_cases result of the candidate list, j its index);
    one harness run + one coqc per round."""
    cur = case
    size = max(1, len(cur["steps"]) // 2)
    rounds = 0
    while rounds < max_rounds and len(cur["steps"]) > 1:
        n = len(cur["steps"])
        size = min(size, n - 1) or 1
        cands = []
        for off in range(0, n, size):
            c = dict(cur)
            c["steps"] = cur["steps"][:off] + cur["steps"][off + size:]
            if not c["steps"]:
                continue
            c["dump_at"] = list(range(len(c["steps"])))
            cands.append(c)
        rounds += 1
        try:
            outs = run_impl(pid, cands, "shrink")
            ev = eval_cases(pid, cfg, cands, outs, name="Shrink")
        except (vlib.TieBroken, vlib.InfraError):
            break
        good = [j for j in range(len(cands)) if keep(ev, j)]
        if good:
            cur = cands[good[0]]
        elif size == 1:
            break
        else:
            size = max(1, size // 2)
    return cur


def run_property(res, pid, tier, seed, theorems, modules, extra_targets, families, n_quick, n_thorough, dump_all):
    rng = random.Random(seed * 7919 + (22 if pid == "C22" else 23))
    failed = vlib.std_proof_stage(res, pid, AREA, modules, theorems, extra_targets=extra_targets)
    if tier == "thorough" and hasattr(vlib, "coqchk_stage"):
        ok, _ax = vlib.coqchk_stage(res, modules)
        if not ok:
            failed.append(("coqchk", "coqchk did not accept %s (or reported inadmissible axioms)" % ", ".join(modules)))
    res.cov["trusted_base"] += [
        "encoding/json round-trips FSMSnapshot (exercised on every case through the real Persist/Restore, not modelled)",
        "commands reach Apply with strictly increasing raft log indices (hypothesis of the theorems; the generator respects it)",
        "errors are compared as nil / non-nil; reject counters, log lines and callbacks are outside the model",
        "nested Go index maps are compared as flat relations plus a check that no empty inner map exists; tokensByPrefix slices as sets",
        "which variant (as-is / repaired) of the five functions with known defects the tree implements is decided from the witness runs",
    ]
    t0 = time.time()
    ws = witnesses()
    n = n_quick if tier == "quick" else n_thorough
    cases = list(ws) + load_corpus(pid)
    seen = {case_key(c) for c in cases}
    budget = n * 3
    while len(cases) < len(ws) + n and budget > 0:
        budget -= 1
        fam = rng.choice(families)
        c = gen_case(rng, fam, dump_all=dump_all)
        k = case_key(c)
        if k in seen:
            continue
        seen.add(k)
        cases.append(c)
    if pid == "C22":
        cases += crafted_snapshots(rng, 40 if tier == "quick" else 400)
    res.stage("generate", t0)
    t1 = time.time()
    outs = run_impl(pid, cases, tier)
    res.stage("impl_harness", t1)
    cfg = detect_cfg(ws, outs[:len(ws)])
    res.cov["code_variant"] = {k: ("repaired" if v else "as-is (defect present)") for k, v in cfg.items()}
    relevant = {"C22": ("tokname", "filedb"), "C23": ("promote", "addws", "remove")}[pid]
    res.cov["primary_theorems_apply"] = all(cfg[k] for k in relevant)   # the unguarded theorems are stated for the repaired variant
    t2 = time.time()
    ev = eval_cases(pid, cfg, cases, outs, name="Cases_%s_%s" % (pid, tier))
    res.stage("coq_eval", t2)

    orc = PROP_ORACLE[pid]
    guards = PROP_GUARDS[pid]
    dis = ev["agree"]
    ofail = set(ev[orc])
    res.cov["evaluations"] = len(cases)
    res.cov["distinct_nontrivial"] = len({case_key(c) for c, o in zip(cases, outs) if nontrivial(c, o)})
    res.cov["rule"] = ("command sequences over a small universe (4 nodes, 5 paths + 17 malformed paths, 3 databases incl. empty, 3 token/org/team names "
                       "incl. empty / 256 / 257 bytes, malformed permission lists, ids of earlier creates + unknown ids), with undecodable commands, "
                       "null payloads, snapshot-restart steps and (C22) hand-made snapshots; after EVERY prefix the real FSM is snapshotted, persisted, "
                       "restored into a fresh FSM, compared, and the remaining steps replayed from the copy; non-trivial = at least one accepted and one "
                       "rejected command and >= 3 steps (snapshot at an inner prefix); distinct by step list")
    res.cov["model_vs_impl_disagreements"] = len(dis)
    res.cov["oracle_failures"] = len(ofail)
    res.cov["histogram"] = {"ops": op_histogram(cases), "steps_per_case": {str(k): sum(1 for c in cases if len(c["steps"]) == k) for k in range(1, 41)},
                            "families": {f: sum(1 for c in cases if c.get("family", "witness") == f) for f in sorted({c.get("family", "witness") for c in cases})},
                            "accepted_steps": sum(sum(1 for b in o["res"] if b) for o in outs), "rejected_steps": sum(sum(1 for b in o["res"] if not b) for o in outs),
                            "prefix_experiments": sum(len(o["snap_eq"] or []) for o in outs),
                            "prefixes_where_restore_differs": sum(sum(1 for b in (o["snap_eq"] or []) if not b) for o in outs),
                            "full_dumps_compared": sum(len(o["dumps"]) + len(o["snap_dumps"]) for o in outs)}
    res.cov["samples"] = [{"steps": cases[len(ws)]["steps"], "res": outs[len(ws)]["res"], "snap_eq": outs[len(ws)]["snap_eq"]},
                          {"steps": cases[-1]["steps"][1:], "res": outs[-1]["res"]}]

    known = {e["signature"]: e for e in vlib.known_for(pid)}
    reported = False
    inside = lambda e, j: all(j not in e[g] for g in guards)
    violates = lambda e, j: j in e[orc] and inside(e, j)          # property fails inside the theorems' domain
    # 1. correspondence.  Prefer a disagreeing case on which the implementation's own output violates the
    #    property (oracle on the real dumps, guards satisfied) and shrink it keeping exactly that.
    if dis:
        bad = [i for i in dis if violates(ev, i)]
        if bad and len(dis) < 400:
            i = bad[0]
            small = shrink_case(pid, cfg, cases[i], violates)
        else:
            i = dis[0]
            small = shrink_case(pid, cfg, cases[i], lambda e, j: j in e["agree"]) if len(dis) < 40 else cases[i]
        small = dict(small, dump_at=list(range(len(small["steps"]))))
        so = run_impl(pid, [small], "shrunk")
        sev = eval_cases(pid, cfg, [small], so, name="Shrunk")
        fails = violates(sev, 0)
        res.violation("model and implementation disagree on a command sequence (%d of %d cases)%s" % (
                          len(dis), len(cases), "; on the replayed sequence the implementation's own dumps violate the property" if fails else ""),
                      {"kind": "correspondence", "correspondence": TIE_NAME[pid], "case": small, "observed": so[0],
                       "oracle_fails_on_impl": fails, "code_variant": cfg, "disagreeing_cases": len(dis)},
                      no_input=not fails, suffix="corr")
        reported = True
    # 2. oracle failures
    reproduced = {}
    for i in sorted(ofail):
        if i in dis:
            continue
        c = cases[i]
        outside = [g for g in guards if i in ev[g]]          # guards that are FALSE on this case
        if not outside:
            small = shrink_case(pid, cfg, c, violates)
            res.violation("the property fails on the real FSM for a sequence inside the domain of the theorems",
                          {"kind": "oracle", "case": small, "code_variant": cfg}, suffix="oracle")
            reported = True
            break
        unknown = [g for g in outside if GUARD_SIG[g] not in known]
        if len(unknown) == len(outside):
            small = shrink_case(pid, cfg, c, lambda e, j: j in e[orc])
            res.violation("the property fails on the real FSM (class %s is not a listed known finding)" % ",".join(GUARD_SIG[g] for g in outside),
                          {"kind": "oracle", "case": small, "code_variant": cfg}, suffix="oracle")
            reported = True
            break
        for g in outside:
            reproduced.setdefault(GUARD_SIG[g], 0)
            reproduced[GUARD_SIG[g]] += 1
    # 3. known findings: printed when the witness still fails on the real code exactly as the model predicts
    for wi, w in enumerate(ws):
        sig = w["sig"]
        if sig not in known or GUARD_SIG_INV[sig] not in guards:
            continue
        if w["name"] == "w_rejoin_primary" and JOIN_HAS_WS:
            continue      # the join path now carries a writer_state: this witness is no longer what a rejoin proposes
        if wi in ofail and wi not in dis and not cfg[w["flag"]]:
            line = "%s [%s] %s" % (sig, w["name"], known[sig]["what"])
            if not any(k.startswith(sig + " ") for k in res.known):
                res.known_finding(line)
    res.cov["oracle_failures_by_known_class"] = reproduced
    if failed and not reported:
        res.violation("proof obligation(s) no longer check: " + "; ".join(r for _, r in failed),
                      {"kind": "obligation-failed", "theorems": [t for t, _ in failed], "detail": [r for _, r in failed]},
                      no_input=True, suffix="obligation")
    return cfg, cases, outs, ev


GUARD_SIG_INV = {v: k for k, v in GUARD_SIG.items()}
TIE_NAME = {"C22": "C22 correspondence (raft.ClusterFSM Apply/Snapshot/Persist/Restore vs Arc.Fsm.Model apply/snapshot/restore, dumps compared in Coq)",
            "C23": "C23 correspondence (raft.ClusterFSM node/writer/RBAC commands vs Arc.Fsm.Model, dumps after every step compared in Coq)"}


def replay_file(res, pid, path):
    obj = json.load(open(path))
    c = obj.get("case")
    if not c:
        print("replay file names no concrete case:", obj.get("summary"))
        return 1
    c = dict(c)
    c.setdefault("prefix", True)
    c["dump_at"] = list(range(len(c["steps"])))
    ws = witnesses()
    outs = run_impl(pid, ws + [c], "replay")
    cfg = detect_cfg(ws, outs[:len(ws)])
    ev = eval_cases(pid, cfg, [c], outs[len(ws):], name="Replay")
    o = outs[-1]
    print("code variant:", cfg)
    print("results:", o["res"], "| restore(snapshot)=state at each prefix:", o["snap_eq"], "| replay from each prefix reaches the final state:", o["replay_eq"])
    print("model disagrees:", bool(ev["agree"]), "| property oracle fails on the implementation:", bool(ev[PROP_ORACLE[pid]]),
          "| outside guards:", [GUARD_SIG[g] for g in PROP_GUARDS[pid] if ev[g]])
    return 1 if (ev["agree"] or ev[PROP_ORACLE[pid]]) else 0
