#!/usr/bin/env python3
"""check.py <ID> [--tier quick|thorough] [--replay FILE]   (cwd /verif)

Single entry point of every property check.  Loads tools/props/<ID>.py and runs its
`run(res, tier, seed)`; translates tie/infrastructure failures into the contract of
DESIGN.md section 4."""
import argparse
import importlib
import os
import sys
import traceback

sys.path.insert(0, os.path.dirname(os.path.abspath(__file__)))
import vlib  # noqa: E402


def main():
    ap = argparse.ArgumentParser()
    ap.add_argument("pid")
    ap.add_argument("--tier", default=os.environ.get("VERIF_TIER") or "quick", choices=["quick", "thorough"])
    ap.add_argument("--replay")
    a = ap.parse_args()
    try:
        seed = int(os.environ.get("VERIF_SEED") or "1")
    except ValueError:
        seed = 1
    os.chdir(vlib.ROOT)
    mod = importlib.import_module("props." + a.pid)
    res = vlib.Result(a.pid, a.tier, seed)
    try:
        if a.replay:
            rc = mod.replay(res, a.replay)
            sys.exit(rc)
        mod.run(res, a.tier, seed)
    except vlib.TieBroken as e:
        # the model can no longer be tied to the current source: the property is no longer
        # shown to hold.  The property module had its chance to search for a failing input.
        res.violation("tie between model and source broken: %s" % e,
                      {"kind": "tie-broken", "correspondence": getattr(mod, "TIE_NAME", a.pid + " correspondence"),
                       "detail": str(e)}, no_input=True, suffix="tie")
    except vlib.InfraError as e:
        vlib.log("infrastructure error: %s" % e)
        traceback.print_exc()
        res.notes.append("infrastructure error: %s" % e)
        res.finish(getattr(mod, "LEVEL", "proof"))
        sys.exit(2)
    sys.exit(res.finish(getattr(mod, "LEVEL", "proof")))


if __name__ == "__main__":
    main()
